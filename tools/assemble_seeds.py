#!/venv/bin/python
"""Turn seeded/_pending/<PID>/{patch_i.diff,demo_i.py,meta_i.json,confirm_i.json,audit_i.json} into seeded/<PID>_<i>/{patch.diff,demo.py,meta.json}.
Only changes that were confirmed (demo passes clean, fails patched, 117 pinned tests pass with the patch) are kept."""
import glob, json, os, shutil
root = os.path.dirname(os.path.dirname(os.path.abspath(__file__)))
pend = os.path.join(root, "seeded", "_pending")
summary = []
notes = json.load(open(os.path.join(root, "seeded", "notes.json")))
for d in sorted(glob.glob(os.path.join(pend, "C*"))):
    pid = os.path.basename(d)
    for mf in sorted(glob.glob(os.path.join(d, "meta_*.json"))):
        i = os.path.basename(mf)[5:-5]
        meta = json.load(open(mf))
        conf = json.load(open(os.path.join(d, f"confirm_{i}.json"))) if os.path.exists(os.path.join(d, f"confirm_{i}.json")) else {}
        aud = json.load(open(os.path.join(d, f"audit_{i}.json"))) if os.path.exists(os.path.join(d, f"audit_{i}.json")) else {}
        if not conf.get("confirmed"):
            summary.append((f"{pid}_{i}", "NOT CONFIRMED", conf.get("patch_applies")))
            continue
        out = os.path.join(root, "seeded", f"{pid}_{i}")
        os.makedirs(out, exist_ok=True)
        shutil.copy(os.path.join(d, f"patch_{i}.diff"), os.path.join(out, "patch.diff"))
        shutil.copy(os.path.join(d, f"demo_{i}.py"), os.path.join(out, "demo.py"))
        caught = {p: c["caught"] for p, c in aud.get("checks", {}).items()}
        prev = {}
        if os.path.exists(os.path.join(out, "meta.json")):
            prev = json.load(open(os.path.join(out, "meta.json")))
        m = {
            "property": meta.get("property", pid),
            "summary": meta.get("summary"),
            "needs_to_manifest": meta.get("needs_to_manifest"),
            "files_touched": meta.get("files_touched"),
            "author": "independent sub-agent given only the property text and a scratch worktree",
            "what_i_ran": {
                "confirmation": f"tools/confirm_seed.py at /repo {conf.get('repo_head')}: demo.py exit {conf.get('demo_clean_rc')} on the clean worktree, exit {conf.get('demo_patched_rc')} with the patch; "
                                f"{conf.get('stable_passed')} of the 117 pinned stable tests passed with the patch, failed: {conf.get('stable_failed')}",
                "audit": f"tools/seed_audit.py at /repo {aud.get('repo_head')}: patch applied to a scratch worktree of HEAD, quick tier of each check run with JXMON_REPO" if aud else "not audited yet",
            },
            "patch_applies_to_head": aud.get("patch_applies"),
            "caught_by": sorted(p for p, c in caught.items() if c),
            "missed_by": sorted(p for p, c in caught.items() if not c),
            "first_violation": {p: c.get("first") for p, c in aud.get("checks", {}).items() if c.get("caught")},
            "notes": notes.get(f"{pid}_{i}", prev.get("notes", "")),
        }
        json.dump(m, open(os.path.join(out, "meta.json"), "w"), indent=1)
        summary.append((f"{pid}_{i}", "kept", m["caught_by"], m["missed_by"], aud.get("patch_applies")))
for s in summary:
    print(*s)
