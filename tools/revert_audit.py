#!/venv/bin/python
"""For every 'fix:' commit of /repo: revert it alone in a scratch worktree and run the check(s) that own the finding; the check must
report the violation again (a 'fixed' entry suppresses nothing).  usage: revert_audit.py [FID ...]  -> prints a table, writes /verif/seeded/revert_audit.json"""
import json, os, re, subprocess, sys, tempfile
only = set(sys.argv[1:])
kf = json.load(open("/verif/known_findings.json"))
rows = []
for line in kf["fixed"]:
    m = re.match(r"fixed: property=(C\d+) (\w+) (F\d+)", line)
    if not m:
        continue
    pid, sha, fid = m.groups()
    if only and fid not in only:
        continue
    wt = tempfile.mkdtemp(prefix="rv_", dir="/tmp"); os.rmdir(wt)
    subprocess.run(["git", "-C", "/repo", "worktree", "add", "-q", "--detach", wt, "HEAD"], check=True)
    row = {"finding": fid, "property": pid, "commit": sha}
    try:
        r = subprocess.run(["git", "-C", wt, "revert", "--no-commit", sha], capture_output=True, text=True)
        row["revert_applies"] = r.returncode == 0
        if r.returncode == 0:
            env = dict(os.environ, JXMON_REPO=wt)
            c = subprocess.run(["/verif/check", pid, "--tier", "quick"], env=env, capture_output=True, text=True, cwd="/verif")
            row["rc"] = c.returncode
            row["fires"] = c.returncode == 1
            v = [l for l in c.stdout.splitlines() if l.startswith("VIOLATION")]
            row["first"] = v[0][:300] if v else None
    finally:
        subprocess.run(["git", "-C", "/repo", "worktree", "remove", "--force", wt])
        for sub in os.listdir("/verif/replays"):
            if sub != "findings":
                subprocess.run(["rm", "-rf", os.path.join("/verif/replays", sub)])
        subprocess.run(["git", "-C", "/verif", "checkout", "--", "evidence"], capture_output=True)
    rows.append(row)
    print(fid, pid, sha, "revert applies" if row["revert_applies"] else "CONFLICT", "FIRES" if row.get("fires") else f"silent rc={row.get('rc')}", flush=True)
if only and os.path.exists("/verif/seeded/revert_audit.json"):
    old = json.load(open("/verif/seeded/revert_audit.json"))
    new = {r["finding"]: r for r in rows}
    rows = [new.pop(r["finding"], r) for r in old] + list(new.values())
json.dump(rows, open("/verif/seeded/revert_audit.json", "w"), indent=1)
