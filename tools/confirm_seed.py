#!/venv/bin/python
"""Confirm a seeded change produced by a sub-agent, in a scratch worktree of /repo HEAD:
 (1) demo passes on the unmodified tree, (2) patch applies, (3) demo fails with the patch,
 (4) the 117 pinned stable tests still pass with the patch.  Writes <dir>/confirm_<i>.json.
usage: confirm_seed.py <pending_dir> <i> [--no-tests]"""
import json, os, subprocess, sys, tempfile, xml.etree.ElementTree as ET
d, i = sys.argv[1], sys.argv[2]
run_tests = "--no-tests" not in sys.argv
d = os.path.abspath(d)
wt = tempfile.mkdtemp(prefix="cs_", dir="/tmp"); os.rmdir(wt)
subprocess.run(["git", "-C", "/repo", "worktree", "add", "-q", "--detach", wt, "HEAD"], check=True)
env = dict(os.environ, PYTHONPATH=wt, JAX_PLATFORMS="cpu")
env.pop("JAXLEY_VERIF", None)
res = {"seed": f"{os.path.basename(d)}_{i}", "repo_head": subprocess.run(["git", "-C", "/repo", "rev-parse", "--short", "HEAD"], capture_output=True, text=True).stdout.strip()}
try:
    demo = os.path.join(d, f"demo_{i}.py")
    def rundemo():
        r = subprocess.run(["/venv/bin/python", demo], cwd=wt, env=env, capture_output=True, text=True, timeout=1800)
        return r.returncode, (r.stdout + r.stderr)[-600:]
    res["demo_clean_rc"], res["demo_clean_tail"] = rundemo()
    r = subprocess.run(["git", "-C", wt, "apply", os.path.join(d, f"patch_{i}.diff")], capture_output=True, text=True)
    res["patch_applies"] = r.returncode == 0
    if not res["patch_applies"]:
        r3 = subprocess.run(["git", "-C", wt, "apply", "-3", os.path.join(d, f"patch_{i}.diff")], capture_output=True, text=True)
        res["patch_applies_3way"] = r3.returncode == 0
        res["patch_err"] = r.stderr[-300:]
    if res["patch_applies"] or res.get("patch_applies_3way"):
        res["demo_patched_rc"], res["demo_patched_tail"] = rundemo()
        if run_tests:
            base = json.load(open("/root/.vp/BASELINE.json"))
            ids = []
            for t in base["stable_pass"]:
                mod, name = t.split("::", 1)
                ids.append(mod.replace(".", "/") + ".py::" + name)
            out = tempfile.mktemp(suffix=".xml", dir="/tmp")
            subprocess.run(["nice", "-n", "10", "/venv/bin/python", "-m", "pytest", "-q", "-p", "no:cacheprovider", "--timeout=900", "-n", "4",
                            f"--junitxml={out}"] + ids, cwd=wt, env=env, stdout=subprocess.DEVNULL, stderr=subprocess.DEVNULL, timeout=7200)
            passed, failed = 0, []
            for tc in ET.parse(out).getroot().iter("testcase"):
                if any(c.tag in ("failure", "error", "skipped") for c in tc):
                    failed.append(f"{tc.get('classname')}::{tc.get('name')}")
                else:
                    passed += 1
            os.remove(out)
            res["stable_passed"], res["stable_failed"] = passed, failed
    res["confirmed"] = bool(res.get("demo_clean_rc") == 0 and res.get("demo_patched_rc", 0) != 0 and (not run_tests or (res.get("stable_failed") == [] and res.get("stable_passed", 0) >= 117)))
finally:
    subprocess.run(["git", "-C", "/repo", "worktree", "remove", "--force", wt])
json.dump(res, open(os.path.join(d, f"confirm_{i}.json"), "w"), indent=1)
print(res["seed"], "confirmed" if res["confirmed"] else "NOT CONFIRMED", {k: v for k, v in res.items() if k in ("demo_clean_rc", "demo_patched_rc", "patch_applies", "stable_passed", "stable_failed")})
