#!/venv/bin/python
"""Writes /verif/MANIFEST.json from the table below and validates it against the schema."""
import json
import os
import sys

ROOT = os.path.dirname(os.path.dirname(os.path.abspath(__file__)))

# property -> (technique, level text, level note, design ref)
CLAIMED = {
    "C01": ("reference-model monitor: integrate()/step_fn outputs and hooked step_voltage_* calls vs independent dense cable oracle (backward error)",
            "Exploration: every (scheme, backend) one-step result of randomly generated passive modules (all module kinds, irregular trees, heterogeneous compartment counts, non-topological labellings, dt 1e-4..1e9) is compared with an independently assembled symmetric cable system by componentwise backward error; plus eager runs with HH where wrappers on the real solver functions re-solve each call. Held on the executions observed, nothing more.",
            "Trusts the oracle R1 (self-tested in setup.sh against hand-computed systems and analytic cable), numpy.linalg.solve, and that exceptions are allowed refusals.",
            "DESIGN.md section 4 C01"),
}

PENDING_REASON = "check not built yet in this session (planned: see DESIGN.md section 4); not claimed until it has run silent on the unchanged tree"


def main():
    props = [json.loads(l) for l in open(os.path.join(ROOT, "properties.jsonl"))]
    checks, na = [], []
    for p in props:
        pid = p["id"]
        if pid in CLAIMED:
            tech, text, note, ref = CLAIMED[pid]
            checks.append({
                "property_id": pid,
                "quick_cmd": f"./check {pid} --tier quick",
                "thorough_cmd": f"./check {pid} --tier thorough",
                "evidence_file": f"/verif/evidence/{pid}.json",
                "replay_cmd_template": f"./check {pid} --replay {{path}}",
                "engine": "jxmon",
                "level_claimed": {"category": "exploration", "text": text, "design_ref": ref},
                "level_note": note,
                "technique": tech,
            })
        else:
            na.append({"property_id": pid, "reason": NA.get(pid, PENDING_REASON)})
    man = {
        "version": 1,
        "setup_cmd": "./setup.sh",
        "hooks": {
            "guard": "JAXLEY_VERIF",
            "enable": "no source hooks in /repo: all instrumentation is attached from the harness (wrappers, icontract, sys.monitoring); workers run with JAXLEY_VERIF=1, which only switches on harness-side instrumentation",
            "baseline_off_cmd": "cd /repo && env -u JAXLEY_VERIF /venv/bin/python -m pytest -ra -q -p no:cacheprovider --timeout=900 --continue-on-collection-errors",
            "source_commits": [],
            "add_only": True,
        },
        "engines": [{"name": "jxmon", "path": "jxmon/", "serves_properties": sorted(CLAIMED),
                     "kind_free_text": "runtime monitoring: seeded workload programs driven against the real jaxley in worker subprocesses, reference-model/identity/differential oracles over observed events, three-valued verdicts"}],
        "checks": checks,
        "notes": "exit 0 = held on everything observed (KNOWN-FINDING lines possible), exit 1 = VIOLATION, exit 2 = INCONCLUSIVE (monitor not reached / budget exceeded; never a verdict). VERIF_SEED and VERIF_TIER are honoured.",
        "not_applicable": na,
    }
    path = os.path.join(ROOT, "MANIFEST.json")
    with open(path, "w") as f:
        json.dump(man, f, indent=1)
    try:
        import jsonschema
        jsonschema.validate(man, json.load(open("/root/.vp/MANIFEST.schema.json")))
        print("MANIFEST.json valid;", len(checks), "claimed,", len(na), "not claimed")
    except ImportError:
        print("jsonschema not available; wrote MANIFEST.json unvalidated")


NA = {}

if __name__ == "__main__":
    main()
