#!/venv/bin/python
"""Writes /verif/MANIFEST.json from the table below and validates it against the schema."""
import json
import os
import sys

ROOT = os.path.dirname(os.path.dirname(os.path.abspath(__file__)))

# property -> (technique, level text, level note, design ref)
CLAIMED = {
    "C01": ("reference-model monitor: integrate()/step_fn outputs and hooked step_voltage_* calls vs independent dense cable oracle (backward error)",
            "Exploration: every (scheme, backend) one-step result of randomly generated passive modules (all module kinds, irregular trees, heterogeneous compartment counts, non-topological labellings, dt 1e-4..1e9) is compared with an independently assembled symmetric cable system by componentwise backward error; plus eager runs with HH where wrappers on the real solver functions re-solve each call. Held on the executions observed, nothing more.",
            "Trusts the oracle R1 (self-tested in setup.sh against hand-computed systems and analytic cable), numpy.linalg.solve, and that exceptions are allowed refusals.",
            "DESIGN.md section 4 C01"),
    "C02": ("identity monitors over observed one-step executions: charge balance, uniform-stays-uniform, maximum principle, reciprocity over all ordered pairs",
            "Exploration: physical identities that need no reference solution are evaluated on jitted one-step simulations of randomly generated passive modules for every (scheme, backend): sum C dv against injected minus membrane charge, uniform rest, min/max bounds for backward Euler, and the full response matrix (N+1 runs) for symmetry. Sensitive to consistently applied wrong factors that A-vs-B tests cannot see.",
            "Trusts area=2*pi*r*l and the definition of C_i, G_i; tolerances are scaled by the rounding scale of the rows of the linear system and by its condition number.",
            "DESIGN.md section 4 C02"),
    "C03": ("runtime contracts (icontract) on the real update_states methods + recorded gate trajectories under voltage clamp",
            "Exploration: icontract postconditions attached from outside to update_states of HH, Na, K, Km, CaL, CaT, Leak, IonotropicSynapse, TestSynapse judge every gate value returned for hostile vectors (exact singular voltages, +-1..8 ulp, 1e-13..1e-3 offsets, clip thresholds, dense random doubles; dt 1e-6..1e3; states 0/1/denormal/1-2^-53): finite, in [0,1], equal to the closed-form exponential built from the code's own rates, moving toward and never past the steady state; plus integrate() under a voltage clamp passing exactly through the singular voltages.",
            "The closed form uses the code's own rate functions (rates themselves are C04). Sampled doubles, not every double.",
            "DESIGN.md section 4 C03"),
    "C04": ("reference-model monitor: rate functions, currents, defaults vs mpmath transcription of the papers (self-tested against NEURON's hh); rename differential",
            "Exploration: return values of every gate function, compute_current, synaptic update and the parameter/state tables are compared with a 50-digit mpmath oracle written from HH 1952 / Pospischil 2008 / Abbott-Marder 1998 on singular, near-singular, clipped and generic voltages; renamed instances must be bit-identical with keys re-prefixed for random prefix chains.",
            "Trusts the transcription R2 (HH part cross-checked against NEURON 9 compiled hh mechanism in setup.sh; Pospischil/Abbott-Marder part from the papers only). Known finding F12 (CaT tau_u above -20 mV) is reported as KNOWN-FINDING.",
            "DESIGN.md section 4 C04"),
    "C05": ("finite-difference oracle (central differences, float64, three step sizes) against jit(grad) through integrate; forward- vs reverse-mode cross-check",
            "Exploration: for randomly generated active models every component of jax.grad of a simulated loss is compared with converged central finite differences of the same jitted loss; trainables cover channel and synapse parameters, radius, length, axial resistivity, capacitance, initial voltage and gate states, initial voltages placed exactly on the removable singularities of the rate functions (a non-finite gradient of a finite loss is a violation), a data-fed stimulus amplitude and a data_set value, shared per compartment/branch/cell/group with unequal group sizes, alone (single-family cases) and combined, over solvers x backends x checkpoint layouts; jvp against vjp along random directions.",
            "Differentiable points only; FD noise floor 1e-7 relative, acceptance 2e-5 relative.",
            "DESIGN.md section 4 C05"),
    "C06": ("differential monitor over execution modes (eager/jit/vmap/checkpoint/retrace) + purity snapshots of module and caller-owned inputs + bit-identity of repeated calls",
            "Exploration: one simulation per case is executed by the default path, repeatedly, under jax.jit (twice), after a previous trace (jit then jit(grad) of a view-creating function), under jax.disable_jit, under vmap over stimuli and over parameters (vs a python loop) and with checkpoint layouts of depth 1-3 (product = and > steps; a layout that raises while the plain call succeeds is a violation), for models with static, data-fed, mixed and no inputs at all; outputs must agree to 1e-8, repeats bit-identically; module tables, inputs, recordings, trainables, groups and the caller's param_state are snapshotted before/after every call and must not change.",
            "jaxnodes/jaxedges are caches and are not compared, but a later transformation failing because of them is a violation (mode retrace).",
            "DESIGN.md section 4 C06"),
    "C07": ("differential monitor over split/continued/manual-stepped runs + direct state monitor (returned all_states vs last recorded column) over checkpoint layouts",
            "Exploration: N-step runs of active models (all recordable states recorded, trainable initial states in half of the cases) are compared with the same run split into 2-4 pieces chained through return_states/all_states (stimulus tail via data_stimulate), with manual init_fn/step_fn stepping (the dictionaries handed to each eager step must come back unchanged; numerically unstable reference runs are skipped), and the returned state dict is compared entry by entry with the last returned column for checkpoint layouts with product = and > N. A quarter of the cases are clamps-only splits: a permanent clamp on the module plus a per-call data_clamp and no data_stimuli, 2-3 equal pieces on the same module object; a continuation that raises, or a change of the module's own external_inds across the calls, is a violation. Known finding F6 is reported as KNOWN-FINDING.",
            "The one-call run is the reference for the pieces; tolerance 1e-9 relative.",
            "DESIGN.md section 4 C07"),
    "C08": ("offline checker over the harness's call log: multi-step R1 reference for passive networks; reference simulator R3 for gate-clamp timing; unique-value tagging for row identity; clamp-hold, t_max and data-route identities; JAX checkify index sanitizer",
            "Exploration: random interleavings of record/stimulate/clamp calls on random views; (A) channel-free capacitor networks: the whole output matrix is compared with a reference driven by the log of requested inputs (row order, time alignment, target compartment, additivity, charge), t_max padding/truncation and data_stimulate equivalence, and a run in which the stimulated compartments receive their geometry only at integrate time (trainable radius, data_set length) judged against R1 with that geometry; (B) HH/K + three interleaved synapse types with a unique value in every state: column 0 identifies what each row really reads (compartment states, channel currents, synaptic states and currents), clamps (incl. repeated and data_clamp) hold their samples; externals/external_inds stay consistent after every accepted stimulate/clamp; (G) time-varying gate clamps on an HH/K cell: the whole matrix of v, channel currents and gates against the reference simulator R3, which pins the step at which a clamp sample enters the dynamics; checkify(index_checks) on the thomas backend as supplementary sanitizer.",
            "R1 as reference for passive cases; row i of a stimulus goes to the i-th compartment of the view as shown by view.nodes.",
            "DESIGN.md section 4 C08"),
    "C09": ("reference-model monitor: independent synaptic reference simulator (Abbott-Marder closed form + absolute point currents in the R1 system) over recorded voltages; order/zero-conductance differentials",
            "Exploration: networks with 1-12 edges (autapses, fan-in/out, duplicate pairs, 1-3 interleaved synapse types, unique per-edge parameters) are simulated for 1-5 steps and every compartment voltage is compared with a reference that reads only the .edges semantics (state from the OLD pre voltage, current into the POST compartment as absolute nA), accepting both first-order-consistent secant forms; small-dt charge attribution with TanhRateSynapse; creation-order permutations; zero conductance vs cells alone; parameters set through edge/synapse-type views and geometry of post compartments fed at integrate time.",
            "Scheme-ambiguity set for the secant of pre-voltage dependent currents; passive membranes so that the step is linear.",
            "DESIGN.md section 4 C09"),
    "C10": ("reference-model monitor (R4 scatter with unique-value tagging) over get_all_parameters/get_all_states/write_trainables + three-route differential simulation",
            "Exploration: after sequences of make_trainable calls on views reached by random selection chains (views that exclude the module's last row, shared parameters over groups of unequal size, node keys, edge keys, initial states) the parameter and state arrays actually used for simulation must equal the reference scatter computed from the independent view model, every unselected row keeping its uniquely tagged table value, and every array of get_all_parameters (incl. axial conductances, stone and sparse) must equal that of a copy whose tables hold the same values; directed cases: padded index arrays as large as the module, permuted full covers, 12-32 interleaved synapses with one run-time parameter per edge; write_trainables must store exactly those arrays; set / data_set / make_trainable+params must give identical arrays and simulations.",
            "Trusts the sharing rule stated in DESIGN.md (last selection step decides the grouping) and R4.",
            "DESIGN.md section 4 C10"),
    "C11": ("reference-model monitor (pure-python view model R4) after every step of random selection chains + invariant at a hook (base-table diff after each mutator through a view)",
            "Exploration: random chains (depth <=4) over cell/branch/comp/loc/edge/select/group/channel/synapse-name with all index forms (slices with global labels on strict sub-views emphasised) and scope switches on irregular networks, cells and branches; after every step node/edge label sets and local index columns are compared with R4; lazy [] indexing and iteration against the method form; a mutator (set, insert, record, stimulate, clamp, add_to_group, move, edge set) is applied through the final view and every base table must be unchanged outside (selected rows x touched columns).",
            "Negative slice bounds and boolean masks on views whose index values are not 0..n-1 are outside the checked domain; known finding F20 reported as KNOWN-FINDING.",
            "DESIGN.md section 4 C11"),
    "C15": ("analytic-oracle monitor on refinement ladders (cable theory closed forms; exact eigenmodes of the semi-discrete cable)",
            "Exploration: observed convergence orders on finite ladders (ncomp 4..64, dt0/2^k) against sealed-cable steady state (one branch, two branches with equal and unequal compartment lengths; a graded 1:3 grid inside one branch judged on convergence only), exact eigenmode relaxation and RC relaxation, for all schemes and backends, with an absolute error bound at the finest level that fixes the units.",
            "Bounded restatement of 'converges in the limit': order windows on a finite ladder.",
            "DESIGN.md section 4 C15"),
    "C12": ("table-equality monitor against constituents built alone + differential simulations (alone vs assembled, sibling permutations)",
            "Exploration: compartments with different channel sets (shared parameter names holding different values), geometry and states are assembled into branches, cells and networks; every assembled row must equal the constituent's row with absent parameters NaN and absent channels False under contiguous hierarchical indices, the channel registry must be the union; networks without synapses vs cells alone (on jax.sparse, and on jaxley.stone/thomas for networks of different-depth cells with one compartment count and of equal irregular morphology), one-branch cells vs branches, one-compartment branches vs compartments; hostile sibling relabellings (parents of later branches listed first) must only permute results.",
            "A compartment built and edited on its own is the specification of its row.",
            "DESIGN.md section 4 C12"),
    "C13": ("invariant monitor after each set_ncomp + differential against direct construction (tables, 3 backends) + R5 radius profile for SWC cells",
            "Exploration: sequences of branch(i).set_ncomp(n) on hand-built cells (per-branch properties, cell-wide and per-branch channels, whole-branch groups) and generated SWC cells, half of them simulated before the first set_ncomp: branch length/properties/channels kept, other branches and connectivity unchanged, branch membership of groups unchanged, tables and simulations (stone, thomas, sparse) equal to a cell built directly with the final counts (incl. the parameter sharing make_trainable creates afterwards), SWC radius profile equal to the independent interpolation at the new centres.",
            "Refusals of set_ncomp (heterogeneous branches, single-compartment branches with channels) are counted, not judged.",
            "DESIGN.md section 4 C13"),
    "C16": ("reference-model monitor: independent SWC interpreter R5 over generated files",
            "Exploration: random depth-first SWC trees (single/multi-point somata, type changes, zero-length steps, custom types, neurites from the soma start) are read with random ncomp/min_radius/max_branch_len; branches are matched to the file's sections through cell.xyzr; structure and connectivity, per-branch length, per-compartment radius, type groups, independence of ncomp and max_branch_len splitting are compared with R5. Known finding F25 reported as KNOWN-FINDING.",
            "Conventions are those documented in docstrings/comments; the convention-free subset is what is independent.",
            "DESIGN.md section 4 C16"),
    "C18": ("equality + object-graph aliasing monitor over pickle/deepcopy copies of modules from random histories; independence under edits",
            "Exploration: modules from random construction/editing histories (hand-built incl. parent-shorter-than-level cells, SWC cells with single/multi-point somata and padded root branches, networks with synapses, groups, trainables, clamps, after integrate / set_ncomp, views) are copied by pickle and deepcopy: tables and attributes equal, simulation and gradient bit-identical, no mutable object shared between the object graphs (walk through every jaxley object; a walk that visits fewer than 8 objects is skipped, not held), mechanism instance state incl. a channel renamed after construction, editing the copy leaves the original unchanged and editing the original (incl. set_ncomp on a branch with children) leaves an earlier copy unchanged.",
            "jax arrays are immutable and may be shared; jaxnodes/jaxedges caches excluded.",
            "DESIGN.md section 4 C18"),
    "C19": ("invariant at a hook (table invariants R6 after every accepted public mutator) + offline reference simulation R3 of the final tables; exhaustive bounded histories + random histories",
            "Exploration with an exhaustive sub-enumeration: all histories of depth 2 (quick) / depth 3 on the cell and depth 2 on the network (thorough) over 23 concrete operations on two fixed irregular modules; each operation may only change the parts of the module it is about (frame condition), an undo family over channel pairs sharing columns, a simulate-then-edit family (a run in the middle of the history must leave every table unchanged and must not influence the behaviour after later edits), and random histories of length 4-25; after every accepted operation the tables must satisfy I1-I7, insert..delete_channel must restore the earlier tables (I8), refused operations must have no side effects, and integrate must equal the independent reference simulator rebuilt from the tables alone (1e-6).",
            "R3 encodes jaxley's documented operator splitting; trainable values are scattered into the reference tables by their public index arrays.",
            "DESIGN.md section 4 C19"),
    "C14": ("fixed-point and reference-model monitors on .nodes after init_states()",
            "Exploration: after init_states() on randomly built modules (top-down, and bottom-up from compartments that already carry channels sharing a current name) with partial, renamed and multiple channel insertions and per-compartment voltages (incl. singular ones) and parameters, every gate must be a fixed point of the channel's own update for dt in {0.025,1,1000}, equal R2's steady state, and nothing outside (channel rows x gate columns) may change.",
            "Trusts R2 steady states and the channel's own update_states as the definition of 'fixed point'.",
            "DESIGN.md section 4 C14"),
    "C17": ("runtime contracts (icontract) on forward() for bounds + exact-arithmetic (mpmath) round-trip/monotonicity oracles + jit/leafwise differential",
            "Exploration: bounds postconditions fire on every concrete forward call; round trips in both directions are judged against the exact sigmoid/softplus with the unavoidable conditioning error of the exact inverse as tolerance (exempt only where the exact value rounds onto a bound); monotonicity on sorted batches that include 1 ulp .. 3e-8 neighbourhoods of round branch-switch values; ParamTransform must touch exactly its own leaf; jit == eager where well conditioned.",
            "Declared bounds are the constructor arguments as documented. The interval-analysis proof named in the quantifier is another technique family and is not attempted.",
            "DESIGN.md section 4 C17"),
    "C20": ("definition-based monitor over .edges after each builder call, many seeds per configuration, exhaustive small boolean matrices",
            "Exploration (with an exhaustive sub-enumeration of all boolean matrices up to 2x3/3x2 quick, 3x3 thorough): after every fully_connect / sparse_connect / connectivity_matrix_connect call on random cell subsets of irregular networks the appended rows are mapped to cells and compared with the product set / True entries / subset rule, pre site = first compartment, post site inside the intended cell, no exception for any draw.",
            "Cells are identified via net.nodes; global numpy RNG re-seeded per call.",
            "DESIGN.md section 4 C20"),
}

PENDING_REASON = "check not built yet in this session (planned: see DESIGN.md section 4); not claimed until it has run silent on the unchanged tree"


def main():
    props = [json.loads(l) for l in open(os.path.join(ROOT, "properties.jsonl"))]
    checks, na = [], []
    for p in props:
        pid = p["id"]
        if pid in CLAIMED:
            tech, text, note, ref = CLAIMED[pid]
            checks.append({
                "property_id": pid,
                "quick_cmd": f"./check {pid} --tier quick",
                "thorough_cmd": f"./check {pid} --tier thorough",
                "evidence_file": f"/verif/evidence/{pid}.json",
                "replay_cmd_template": f"./check {pid} --replay {{path}}",
                "engine": "jxmon",
                "level_claimed": {"category": "exploration", "text": text, "design_ref": ref},
                "level_note": note,
                "technique": tech,
            })
        else:
            na.append({"property_id": pid, "reason": NA.get(pid, PENDING_REASON)})
    man = {
        "version": 1,
        "setup_cmd": "./setup.sh",
        "hooks": {
            "guard": "JAXLEY_VERIF",
            "enable": "no source hooks in /repo: all instrumentation is attached from the harness (wrappers, icontract, sys.monitoring); workers run with JAXLEY_VERIF=1, which only switches on harness-side instrumentation",
            "baseline_off_cmd": "cd /repo && env -u JAXLEY_VERIF /venv/bin/python -m pytest -ra -q -p no:cacheprovider --timeout=900 --continue-on-collection-errors",
            "source_commits": [],
            "add_only": True,
        },
        "engines": [{"name": "jxmon", "path": "jxmon/", "serves_properties": sorted(CLAIMED),
                     "kind_free_text": "runtime monitoring: seeded workload programs driven against the real jaxley in worker subprocesses, reference-model/identity/differential oracles over observed events, three-valued verdicts"}],
        "checks": checks,
        "notes": "exit 0 = held on everything observed (KNOWN-FINDING lines possible), exit 1 = VIOLATION, exit 2 = INCONCLUSIVE (monitor not reached / budget exceeded; never a verdict). VERIF_SEED and VERIF_TIER are honoured.",
        "not_applicable": na,
    }
    path = os.path.join(ROOT, "MANIFEST.json")
    with open(path, "w") as f:
        json.dump(man, f, indent=1)
    try:
        import jsonschema
        jsonschema.validate(man, json.load(open("/root/.vp/MANIFEST.schema.json")))
        print("MANIFEST.json valid;", len(checks), "claimed,", len(na), "not claimed")
    except ImportError:
        print("jsonschema not available; wrote MANIFEST.json unvalidated")


NA = {}

if __name__ == "__main__":
    main()
