#!/venv/bin/python
"""Validate MANIFEST.json and every evidence/<id>.json against the harness schemas; list properties without evidence."""
import glob, json, os, sys
import jsonschema
root = os.path.dirname(os.path.dirname(os.path.abspath(__file__)))
man = json.load(open(os.path.join(root, "MANIFEST.json")))
jsonschema.validate(man, json.load(open("/root/.vp/MANIFEST.schema.json")))
es = json.load(open("/root/.vp/EVIDENCE.schema.json"))
bad = 0
for c in man["checks"]:
    p = os.path.join(root, "evidence", c["property_id"] + ".json")
    if not os.path.exists(p):
        print("MISSING evidence", c["property_id"]); bad += 1; continue
    e = json.load(open(p))
    try:
        jsonschema.validate(e, es)
        cov = e["coverage"]
        print(f"{c['property_id']} ok tier={e['tier']} seed={e['seed']} evaluations={cov['evaluations']} distinct_nontrivial={cov['distinct_nontrivial']} "
              f"verdict={cov.get('verdict')} wall={e['wall_s']}s")
    except jsonschema.ValidationError as ex:
        print("INVALID", c["property_id"], ex.message[:200]); bad += 1
ids = {json.loads(l)["id"] for l in open(os.path.join(root, "properties.jsonl"))}
claimed = {c["property_id"] for c in man["checks"]}
na = {x["property_id"] for x in man.get("not_applicable", [])}
print("claimed", len(claimed), "not_applicable", len(na), "unaccounted", sorted(ids - claimed - na))
sys.exit(1 if bad else 0)
