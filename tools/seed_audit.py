#!/venv/bin/python
"""Run the checks against every seeded change (scratch worktree of /repo HEAD outside /repo and /verif, JXMON_REPO), record which
checks catch which change.  usage: seed_audit.py <seed dir> [PID,PID...] [--only I] [--just PID,PID]   (default: the property the seed was written for)
Writes <seed dir>/audit_<i>.json. Never touches /repo's working tree."""
import json, os, subprocess, sys, tempfile, glob
d = os.path.abspath(sys.argv[1])
args = sys.argv[2:]
only = args[args.index("--only") + 1] if "--only" in args else None      # patch number
just = args[args.index("--just") + 1].split(",") if "--just" in args else None  # run exactly these checks, merge into the audit file
extra = args[0].split(",") if args and not args[0].startswith("--") else []
for patch in sorted(glob.glob(os.path.join(d, "patch_*.diff"))):
    i = os.path.basename(patch)[6:-5]
    if only and i != only:
        continue
    meta = json.load(open(os.path.join(d, f"meta_{i}.json")))
    pids = just or ([meta["property"]] + [p for p in extra if p != meta["property"]])
    wt = tempfile.mkdtemp(prefix="sa_", dir="/tmp"); os.rmdir(wt)
    subprocess.run(["git", "-C", "/repo", "worktree", "add", "-q", "--detach", wt, "HEAD"], check=True)
    res = {"seed": f"{os.path.basename(d)}_{i}", "repo_head": subprocess.run(["git", "-C", "/repo", "rev-parse", "--short", "HEAD"], capture_output=True, text=True).stdout.strip(), "checks": {}}
    try:
        ok = subprocess.run(["git", "-C", wt, "apply", patch], capture_output=True).returncode == 0
        if not ok:
            ok = subprocess.run(["git", "-C", wt, "apply", "-3", patch], capture_output=True).returncode == 0
            res["applied_3way"] = ok
        res["patch_applies"] = ok
        if ok:
            env = dict(os.environ, JXMON_REPO=wt)
            for pid in pids:
                r = subprocess.run(["/verif/check", pid, "--tier", "quick"], env=env, capture_output=True, text=True, cwd="/verif")
                viol = [l for l in r.stdout.splitlines() if l.startswith("VIOLATION")]
                res["checks"][pid] = {"rc": r.returncode, "caught": r.returncode == 1, "n_violation_lines": len(viol), "first": viol[0][:400] if viol else None}
                print(res["seed"], pid, "CAUGHT" if r.returncode == 1 else f"MISSED rc={r.returncode}", flush=True)
        else:
            print(res["seed"], "patch does not apply to HEAD", flush=True)
    finally:
        subprocess.run(["git", "-C", "/repo", "worktree", "remove", "--force", wt])
        for sub in os.listdir("/verif/replays"):
            if sub != "findings":
                subprocess.run(["rm", "-rf", os.path.join("/verif/replays", sub)])
        subprocess.run(["git", "-C", "/verif", "checkout", "--", "evidence"], capture_output=True)
    af = os.path.join(d, f"audit_{i}.json")
    if just and os.path.exists(af):
        prev = json.load(open(af))
        prev.setdefault("checks", {}).update(res["checks"])
        prev["repo_head"] = res["repo_head"]
        res = prev
    json.dump(res, open(af, "w"), indent=1)
