#!/venv/bin/python
"""Run the repository's baseline suite with the verification guard OFF and compare with
/root/.vp/BASELINE.json (stable_pass must all pass). usage: baseline.py [-n WORKERS] [-k EXPR]"""
import json, os, subprocess, sys, tempfile, xml.etree.ElementTree as ET
args = sys.argv[1:]
repo = os.environ.get("JXMON_REPO", "/repo")
out = tempfile.mktemp(suffix=".xml", dir="/tmp")
env = {k: v for k, v in os.environ.items() if k != "JAXLEY_VERIF"}
cmd = ["/venv/bin/python", "-m", "pytest", "-q", "-p", "no:cacheprovider", "--timeout=900",
       "--continue-on-collection-errors", f"--junitxml={out}"] + args
subprocess.run(cmd, cwd=repo, env=env, stdout=subprocess.DEVNULL, stderr=subprocess.DEVNULL)
base = json.load(open("/root/.vp/BASELINE.json"))
passed, failed = set(), set()
for tc in ET.parse(out).getroot().iter("testcase"):
    name = f"{tc.get('classname')}::{tc.get('name')}"
    bad = any(c.tag in ("failure", "error", "skipped") for c in tc)
    (failed if bad else passed).add(name)
os.remove(out)
stable = set(base["stable_pass"])
ran = passed | failed
missing = sorted((stable & ran) - passed)
print(f"ran={len(ran)} passed={len(passed)} stable_ran={len(stable & ran)} stable_failed={len(missing)}")
for m in missing:
    print("STABLE-FAILED", m)
newly = sorted(passed - stable)
print(f"newly passing (were always_fail): {len(newly)}")
still = sorted(failed - stable)
for m in still:
    print("STILL-FAILING", m)
sys.exit(1 if missing else 0)
