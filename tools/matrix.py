#!/venv/bin/python
"""Regenerate DESIGN.md section 13 (which checks catch which changes) from the recorded audits:
seeded/<id>/meta.json (sub-agent seeds), seeded/revert_audit.json (each fix: commit reverted), seeded/mutant_audit.json (hand mutants).
usage: matrix.py            (rewrites the text between '## 13.' and '## 14.' of DESIGN.md)"""
import glob, json, os, re
root = os.path.dirname(os.path.dirname(os.path.abspath(__file__)))
L = []
L.append("## 13. Sensitivity: which checks catch which changes\n")
L.append("Everything in this section is produced by `tools/matrix.py` from recorded audit results; nothing is typed by hand. "
         "All audits run the **quick** tier (seed 0) of the named checks with `JXMON_REPO` pointing at a scratch worktree of `/repo` HEAD "
         "outside `/repo` and `/verif` with the change applied; `/repo` itself is never touched, the worktree is removed afterwards. "
         "\"caught\" = the check exits 1 with at least one `VIOLATION` line that is not a listed known finding.\n")
# ---- seeds
L.append("### 13.1 Changes seeded by independent sub-agents (`seeded/<id>/`)\n")
L.append("Each was written by a fresh sub-agent that saw only the text of one property and a scratch worktree (nothing from `/verif`), and was kept "
         "only after `tools/confirm_seed.py` confirmed: its demonstration passes on the clean tree, fails with the patch, and all 117 pinned "
         "tests still pass with the patch. `needs` is what the change needs in order to manifest (abridged).\n")
L.append("| seed | property | caught by | missed by | what the change is (abridged) |")
L.append("|---|---|---|---|---|")
nseed = ncaught = 0
later = []
for mf in sorted(glob.glob(os.path.join(root, "seeded", "C*", "meta.json"))):
    m = json.load(open(mf))
    sid = os.path.basename(os.path.dirname(mf))
    s = (m.get("summary") or "").replace("|", "/").replace("\n", " ")
    s = s[:230] + ("…" if len(s) > 230 else "")
    nseed += 1
    ncaught += bool(m.get("caught_by"))
    L.append(f"| {sid} | {m.get('property')} | {', '.join(m.get('caught_by') or []) or '—'} | {', '.join(m.get('missed_by') or []) or '—'} | {s} |")
    if m.get("notes"):
        later.append((sid, m["notes"]))
L.append(f"\n{ncaught} of {nseed} confirmed seeded changes are caught by at least one check at the quick tier.\n")
if later:
    L.append("Notes on seeds that were first missed and what was strengthened (the table above shows the state after strengthening):\n")
    for sid, n in later:
        L.append(f"- **{sid}**: {n}")
    L.append("")
# ---- reverted fixes
ra = os.path.join(root, "seeded", "revert_audit.json")
if os.path.exists(ra):
    R = json.load(open(ra))
    L.append("### 13.2 Each `fix:` commit reverted (the defect the tree really had comes back)\n")
    L.append("| finding | fix commit | check that owns it | reverted tree | first violation line (abridged) |")
    L.append("|---|---|---|---|---|")
    for r in R:
        st = "revert conflicts (later fix builds on it)" if not r.get("revert_applies") else ("**caught**" if r.get("fires") else f"missed (rc={r.get('rc')})")
        L.append(f"| {r.get('finding')} | {r.get('commit')} | {r.get('property')} | {st} | {(r.get('first') or '').replace('|', '/')[:160]} |")
    L.append("")
# ---- hand mutants
ma = os.path.join(root, "seeded", "mutant_audit.json")
if os.path.exists(ma):
    M = json.load(open(ma))
    L.append("### 13.3 Hand-written mutants (`tools/mutants.json`, run by `tools/mutant_batch.py`)\n")
    L.append("One-line semantic edits of the anchored code (sign, index, off-by-one, dropped term, stale cache), written by me while reading the code; "
             "they are weaker evidence than 13.1 because their author also wrote the checks.\n")
    cat = {e["name"]: e for e in json.load(open(os.path.join(root, "tools", "mutants.json")))}
    L.append("| mutant | file | edit | caught by | missed by |")
    L.append("|---|---|---|---|---|")
    n = k = 0
    for r in M:
        c = {p: v for p, v in r.get("results", {}).items() if p != "error"}
        e = cat.get(r["name"], {})
        edit = f"`{e.get('old', '')[:60]}` -> `{e.get('new', '')[:60]}`".replace("|", "/").replace("\n", " ")
        if r.get("results", {}).get("error"):
            L.append(f"| {r['name']} | {r.get('file')} | {edit} | (pattern not found on this tree) | |")
            continue
        if e.get("note"):
            L.append(f"| {r['name']} | {r.get('file')} | {edit} | ({e['note']}) | |")
            continue
        n += 1
        k += any(c.values())
        L.append(f"| {r['name']} | {r.get('file')} | {edit} | {', '.join(p for p, v in c.items() if v) or '—'} | {', '.join(p for p, v in c.items() if not v) or '—'} |")
    L.append(f"\n{k} of {n} applied mutants caught by at least one of the checks run on them.\n")
mn = os.path.join(root, "seeded", "mutant_notes.md")
if os.path.exists(mn):
    L.append(open(mn).read())
text = "\n".join(L) + "\n"
p = os.path.join(root, "DESIGN.md")
s = open(p).read()
a = s.find("## 13.")
b = s.find("## 14.")
assert b > 0
if a < 0:
    a = b
s = s[:a] + text + "\n" + s[b:]
open(p, "w").write(s)
print(f"section 13 rewritten: {nseed} seeds ({ncaught} caught)")
