#!/venv/bin/python
"""Set REQUIRED["thorough"] of every property module to half of what a thorough run on the unchanged tree observed.
Reads the log of a sweep (lines '=== Cxx ...' followed by '  monitor <name> held=.. violated=.. refused=.. skipped=..').
A deciding monitor that observes fewer evaluations than REQUIRED makes the run inconclusive, so the threshold must be
low enough never to fire on the unchanged tree and high enough to notice a monitor that was (almost) never reached.
usage: set_thresholds.py <log> [--apply]"""
import os, re, sys
log = open(sys.argv[1]).read().splitlines()
apply = "--apply" in sys.argv
root = os.path.dirname(os.path.dirname(os.path.abspath(__file__)))
obs, cur = {}, None
for line in log:
    m = re.match(r"=== (C\d+) ", line)
    if m:
        cur = m.group(1)
        continue
    m = re.match(r"\s+monitor (\S+)\s+held=(\d+) violated=(\d+)", line)
    if m and cur:
        obs.setdefault(cur, {})[m.group(1)] = int(m.group(2)) + int(m.group(3))
for pid, mons in sorted(obs.items()):
    path = os.path.join(root, "jxmon", "props", pid.lower() + ".py")
    s = open(path).read()
    m = re.search(r'"thorough": (\{[^}]*\})', s[s.index("REQUIRED = "):])
    if not m:
        print(pid, "no thorough dict")
        continue
    old = eval(m.group(1))
    qm = re.search(r'"quick": (\{[^}]*\})', s[s.index("REQUIRED = "):])
    quick = eval(qm.group(1))
    new = {}
    for k, v in old.items():
        if k in mons:
            # at least the quick threshold (thorough explores a superset of the quick generator's classes), at most half of observed
            new[k] = max(min(quick.get(k, 0), mons[k]), int(mons[k] * 0.4))
            new[k] = min(new[k], int(mons[k] * 0.8)) if mons[k] else 0
        else:
            new[k] = v
    print(pid, "observed", {k: mons.get(k) for k in old}, "old", old, "->", new)
    if apply and new != old:
        txt = '"thorough": {' + ", ".join(f'"{k}": {v}' for k, v in new.items()) + "}"
        i = s.index("REQUIRED = ")
        s = s[:i] + s[i:].replace('"thorough": ' + m.group(1), txt, 1)
        open(path, "w").write(s)
