#!/venv/bin/python
"""Sensitivity audit helper: apply ONE textual edit to a scratch worktree of /repo (outside /repo and
/verif), run the named checks against it with JXMON_REPO, report whether each fired, remove the worktree.
usage: mutant.py <name> <file> <old> <new> <PID>[,<PID>...] [--tier quick]
       mutant.py --patch <file.diff> <name> <PID>[,...]"""
import os, subprocess, sys, shutil, tempfile
args = sys.argv[1:]
tier = "quick"
if "--tier" in args:
    i = args.index("--tier"); tier = args[i + 1]; del args[i:i + 2]
wt = tempfile.mkdtemp(prefix="mut_", dir="/tmp")
os.rmdir(wt)
subprocess.run(["git", "-C", "/repo", "worktree", "add", "-q", "--detach", wt, "HEAD"], check=True)
try:
    if args[0] == "--patch":
        _, patch, name, pids = args[:4]
        r = subprocess.run(["git", "-C", wt, "apply", os.path.abspath(patch)], capture_output=True, text=True)
        if r.returncode:
            print(f"MUTANT {name}: patch does not apply: {r.stderr[:300]}"); sys.exit(3)
    else:
        name, file, old, new, pids = args[:5]
        p = os.path.join(wt, file)
        s = open(p).read()
        if s.count(old) < 1:
            print(f"MUTANT {name}: pattern not found in {file}"); sys.exit(3)
        open(p, "w").write(s.replace(old, new, 1))
    env = dict(os.environ, JXMON_REPO=wt)
    for pid in pids.split(","):
        r = subprocess.run(["/verif/check", pid, "--tier", tier], env=env, capture_output=True, text=True, cwd="/verif")
        fired = [l for l in r.stdout.splitlines() if l.startswith("VIOLATION")]
        tail = [l for l in r.stdout.splitlines() if l.startswith(("INCONCLUSIVE", "RESULT", "KNOWN"))]
        print(f"MUTANT {name} -> {pid}: rc={r.returncode} {'CAUGHT' if r.returncode == 1 else 'MISSED'} "
              f"({len(fired)} violation lines) {tail[-1] if tail else ''}")
        if fired:
            print("   ", fired[0][:300])
        if r.returncode not in (0, 1):
            print("   ", "\n    ".join(r.stdout.splitlines()[-6:]))
finally:
    subprocess.run(["git", "-C", "/repo", "worktree", "remove", "--force", wt])
    # the replays written for a mutant are not witnesses against /repo: drop them
    for d in os.listdir("/verif/replays"):
        if d != "findings":
            shutil.rmtree(os.path.join("/verif/replays", d), ignore_errors=True)
    subprocess.run(["git", "-C", "/verif", "checkout", "--", "evidence"], check=False)
