#!/venv/bin/python
"""Run the hand-written mutant catalogue (tools/mutants.json) through tools/mutant.py; writes seeded/mutant_audit.json."""
import json, os, re, subprocess, sys
root = os.path.dirname(os.path.dirname(os.path.abspath(__file__)))
cat = json.load(open(os.path.join(root, "tools", "mutants.json")))
only = set(sys.argv[1:])
af = os.path.join(root, "seeded", "mutant_audit.json")
out = json.load(open(af)) if os.path.exists(af) else []
done = {r["name"] for r in out}
for e in cat:
    if e["name"] in done and not only:
        continue
    out = [r for r in out if r["name"] != e["name"]]
    if only and e["name"] not in only:
        continue
    r = subprocess.run([os.path.join(root, "tools", "mutant.py"), e["name"], e["file"], e["old"], e["new"], ",".join(e["pids"])],
                       capture_output=True, text=True)
    res = {}
    for line in r.stdout.splitlines():
        m = re.match(r"MUTANT (\S+) -> (C\d+): rc=(\d+) (CAUGHT|MISSED)", line)
        if m:
            res[m.group(2)] = m.group(4) == "CAUGHT"
        if "pattern not found" in line:
            res["error"] = "pattern not found"
    out.append({"name": e["name"], "file": e["file"], "results": res})
    print(e["name"], res, flush=True)
    json.dump(out, open(os.path.join(root, "seeded", "mutant_audit.json"), "w"), indent=1)
