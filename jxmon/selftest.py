"""Oracle self-tests (run by setup.sh). Independent of jaxley: a failing self-test means the
oracle is wrong, and checks depending on it must not be trusted."""
import sys
import numpy as np


def test_r1_two_compartments():
    """Two identical compartments, hand-computed: g = pi r^2/(ra*l) etc."""
    from jxmon.oracles import cable
    r, l, ra, cm = 1.0, 10.0, 5000.0, 1.0
    area = 2 * np.pi * r * l
    C = cm * area * 1e-8 * 1e3  # nF  (uF/cm2 * cm2 -> uF -> nF)
    R = ra * (l * 1e-4) / (np.pi * (r * 1e-4) ** 2)  # Ohm between the two centres
    g = 1e6 / R  # uS
    v = np.array([-70.0, -50.0])
    dt = 0.5
    A = np.array([[C / dt + g, -g], [-g, C / dt + g]])
    want = np.linalg.solve(A, C / dt * v)
    got = cable.step([{"parents": [-1], "ncomp": [2]}], [r, r], [l, l], [ra, ra], [cm, cm], v, dt)
    assert np.allclose(got, want, rtol=1e-12), (got, want)


def test_r1_y_junction():
    """Y junction of three one-compartment branches: branch-point voltage by Kirchhoff."""
    from jxmon.oracles import cable
    rad = np.array([2.0, 1.0, 0.5]); l = np.array([20.0, 10.0, 30.0]); ra = np.array([100.0, 200.0, 50.0])
    cm = np.array([1.0, 2.0, 0.5])
    area = 2 * np.pi * rad * l
    C = cm * area * 1e-5
    gh = 1e6 / (ra * (l / 2 * 1e-4) / (np.pi * (rad * 1e-4) ** 2))
    v = np.array([-80.0, -60.0, -20.0]); dt = 0.2
    # unknowns v0,v1,v2,vb
    A = np.zeros((4, 4)); b = np.zeros(4)
    for i in range(3):
        A[i, i] = C[i] / dt + gh[i]; A[i, 3] = -gh[i]; b[i] = C[i] / dt * v[i]
        A[3, i] = -gh[i]
    A[3, 3] = gh.sum()
    want = np.linalg.solve(A, b)[:3]
    got = cable.step([{"parents": [-1, 0, 0], "ncomp": [1, 1, 1]}], rad, l, ra, cm, v, dt)
    assert np.allclose(got, want, rtol=1e-12), (got, want)
    # conservation: sum C dv = 0 without membrane currents
    assert abs(np.sum(C * (got - v))) < 1e-9 * np.sum(C * np.abs(v))


def test_r1_analytic_cable():
    """Steady state of a sealed uniform cable converges (2nd order) to cosh/sinh solution."""
    from jxmon.oracles import cable
    r, L, ra, g, E, I = 1.0, 800.0, 150.0, 3e-4, -65.0, 0.05
    lam = np.sqrt(r * 1e-4 / (2 * ra * g)) * 1e4  # um
    rinf = ra * (lam * 1e-4) / (np.pi * (r * 1e-4) ** 2)  # Ohm
    errs = []
    for n in (8, 16, 32, 64):
        l = L / n
        x = (np.arange(n) + 0.5) * l
        inj = np.zeros(n); inj[0] = I
        v = cable.step([{"parents": [-1], "ncomp": [n]}], [r] * n, [l] * n, [ra] * n, [1.0] * n,
                       np.full(n, E), 1e12, "bwd_euler", [g] * n, [E] * n, inj)
        x0 = x[0]
        ana = E + I * 1e-9 * rinf * np.cosh(x0 / lam) * np.cosh((L - x) / lam) / np.sinh(L / lam) * 1e3
        errs.append(np.max(np.abs(v - ana)))
    orders = [np.log2(errs[i] / errs[i + 1]) for i in range(3)]
    assert all(1.7 < o < 2.3 for o in orders), (errs, orders)
    assert errs[-1] < 3e-3 and errs[-1] < 1e-3 * (np.max(v) - E), (errs, np.max(v) - E)


TESTS = [test_r1_two_compartments, test_r1_y_junction, test_r1_analytic_cable]


def main():
    import importlib
    extra = []
    for name in ("jxmon.oracles.kinetics", "jxmon.oracles.viewmodel", "jxmon.oracles.swcref"):
        try:
            m = importlib.import_module(name)
            extra += [getattr(m, n) for n in dir(m) if n.startswith("selftest_")]
        except ImportError:
            pass
    bad = 0
    for t in TESTS + extra:
        try:
            t()
            print("selftest ok  ", t.__module__.split(".")[-1], t.__name__)
        except Exception as e:  # noqa: BLE001
            bad += 1
            print("selftest FAIL", t.__name__, repr(e)[:400])
    sys.exit(1 if bad else 0)


if __name__ == "__main__":
    main()
