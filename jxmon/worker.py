"""Worker: python -m jxmon.worker <PID> <chunk.json> <out.jsonl>
Runs cases of one property sequentially in this process against the real jaxley."""
import importlib
import io
import json
import os
import signal
import sys
import time
import contextlib


class CaseTimeout(BaseException):
    pass


def _alarm(signum, frame):  # pragma: no cover - timing dependent
    raise CaseTimeout()


def run_one(mod, case, timeout_s):
    from jxmon.core import Rec, Refused, fmt_exc

    rec = Rec()
    err = None
    t0 = time.time()
    old = signal.signal(signal.SIGALRM, _alarm)
    signal.alarm(int(timeout_s))
    try:
        sink = io.StringIO()
        with contextlib.redirect_stdout(sink):
            mod.run_case(case, rec)
    except Refused:
        pass  # already recorded as a refusal by Rec.call
    except CaseTimeout:
        err = "TIMEOUT"
    except Exception:  # harness error: never a verdict on the code under test
        err = fmt_exc()
    finally:
        signal.alarm(0)
        signal.signal(signal.SIGALRM, old)
    out = rec.to_json()
    out["wall"] = round(time.time() - t0, 3)
    out["error"] = err
    return out


def main():
    pid, chunk, outp = sys.argv[1:4]
    from jxmon import env

    env.setup()
    mod = importlib.import_module(f"jxmon.props.{pid.lower()}")
    from jxmon import probes

    cov = probes.MechCoverage(getattr(mod, "MECHANISMS", []))
    cov.start()
    with open(chunk) as f:
        job = json.load(f)
    timeout_s = job.get("case_timeout", 600)
    if hasattr(mod, "worker_init"):
        mod.worker_init()
    with open(outp, "w") as out:
        for n_done, (idx, case) in enumerate(job["cases"]):
            if n_done and n_done % 8 == 0:
                # bound the memory held by compiled executables (every case compiles new programs)
                try:
                    import gc
                    import jax
                    jax.clear_caches()
                    gc.collect()
                except Exception:
                    pass
            res = run_one(mod, case, timeout_s)
            res["i"] = idx
            out.write(json.dumps(res) + "\n")
            out.flush()
        out.write(json.dumps({"i": -1, "mech": cov.stop(), "done": True}) + "\n")


if __name__ == "__main__":
    main()
