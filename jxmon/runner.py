"""Runner: case generation -> worker subprocesses -> aggregation -> verdict -> evidence."""
import argparse
import glob
import importlib
import json
import os
import shutil
import subprocess
import sys
import time

from jxmon import env

ROOT = env.ROOT
PY = os.environ.get("JXMON_PYTHON", "/venv/bin/python")


def load_known():
    with open(os.path.join(ROOT, "known_findings.json")) as f:
        kf = json.load(f)
    return kf


def ensure_deps():
    """(Re-)create ./.deps when absent: icontract + deal from the offline wheelhouse."""
    deps = os.path.join(ROOT, ".deps")
    if os.path.isdir(os.path.join(deps, "icontract")):
        return
    subprocess.run(
        [PY, "-m", "pip", "install", "-q", "--no-index", "--find-links",
         "/opt/veriftools/wheels", "--target", deps, "icontract", "deal"],
        check=False, stdout=subprocess.DEVNULL, stderr=subprocess.DEVNULL, timeout=600,
    )


def spawn_workers(pid, cases, nworkers, case_timeout, wall_budget, workdir):
    """Dynamic pool: the cases are cut into small chunks; up to `nworkers` worker subprocesses run at a time, each on one chunk.
    A chunk whose worker died (segfault/OOM inside XLA) is retried once in a fresh process, its unfinished cases only."""
    os.makedirs(workdir, exist_ok=True)
    per = max(1, min(24, -(-len(cases) // (nworkers * 3))))
    todo = []
    idx = list(range(len(cases)))
    for k in range(0, len(idx), per):
        todo.append({"id": len(todo), "items": [[i, cases[i]] for i in idx[k:k + per]], "try": 0})
    wenv = env.worker_env()
    deadline = time.time() + wall_budget
    running, results, mech, timed_out, crashed = [], {}, [], [], []

    def launch(ch):
        tag = f"{ch['id']}_{ch['try']}"
        cf, of, ef = (os.path.join(workdir, f"{n}_{tag}") for n in ("chunk.json", "out.jsonl", "err.txt"))
        with open(cf, "w") as f:
            json.dump({"cases": ch["items"], "case_timeout": case_timeout}, f)
        p = subprocess.Popen([PY, "-m", "jxmon.worker", pid, cf, of], env=wenv, cwd=ROOT, stdout=subprocess.DEVNULL, stderr=open(ef, "w"))
        running.append((p, ch, of, ef))

    def harvest(p, ch, of, ef):
        done, got = False, set()
        if os.path.exists(of):
            with open(of) as f:
                for line in f:
                    line = line.strip()
                    if not line:
                        continue
                    try:
                        r = json.loads(line)
                    except Exception:
                        continue
                    if r.get("i", 0) == -1:
                        mech.append(r.get("mech", {}))
                        done = True
                    else:
                        results[r["i"]] = r
                        got.add(r["i"])
        if not done:
            rest = [it for it in ch["items"] if it[0] not in got]
            tail = ""
            try:
                with open(ef) as f:
                    tail = f.read()[-1500:]
            except Exception:
                pass
            if rest and ch["try"] == 0 and time.time() < deadline:
                # the case the worker died in goes last, so that the others are not lost with it again
                todo.append({"id": ch["id"], "items": rest[1:] + rest[:1], "try": 1})
            elif rest:
                crashed.append({"chunk": ch["id"], "rc": p.returncode, "lost_cases": [it[0] for it in rest], "stderr_tail": tail})

    while todo or running:
        while todo and len(running) < nworkers and time.time() < deadline:
            launch(todo.pop(0))
        if not running:
            break
        time.sleep(0.2)
        for item in list(running):
            p = item[0]
            if p.poll() is not None:
                running.remove(item)
                harvest(*item)
            elif time.time() > deadline:
                p.kill()
                p.wait()
                running.remove(item)
                timed_out.append(item[1]["id"])
                harvest(*item)
    return results, mech, timed_out, crashed


def aggregate(mod, pid, cases, results, mech):
    mons, refusals, sigs, viols, errors = {}, {}, {}, [], []
    for i, r in results.items():
        for m, d in r["counts"].items():
            t = mons.setdefault(m, {"held": 0, "violated": 0, "refused": 0, "skipped": 0})
            for k, v in d.items():
                t[k] += v
        for k, v in r["refusals"].items():
            refusals[k] = refusals.get(k, 0) + v
        for s, nt in r["sigs"]:
            sigs[s] = sigs.get(s, False) or nt
        for v in r["violations"]:
            viols.append((i, v))
        if r.get("error"):
            errors.append((i, r["error"]))
    entered, absent = {}, set()
    for m in mech:
        for k, v in m.get("entered", {}).items():
            entered[k] = entered.get(k, 0) + v
        absent.update(m.get("absent", []))
    return mons, refusals, sigs, viols, errors, entered, sorted(absent)


def run(pid, tier, seed, replay=None, nworkers=None, keep=False):
    t0 = time.time()
    ensure_deps()
    mod = importlib.import_module(f"jxmon.props.{pid.lower()}")
    kf = load_known()
    open_findings = {f["id"]: f for f in kf["findings"] if f["status"] == "open" and pid in f["property"]}

    if replay:
        with open(replay) as f:
            rp = json.load(f)
        cases = [rp["case"]]
    else:
        cases = mod.cases(seed, tier)
    nworkers = nworkers or int(os.environ.get("JXMON_WORKERS", "16"))
    nworkers = max(1, min(nworkers, len(cases)))
    budget = getattr(mod, "WALL_BUDGET", {"quick": 1500, "thorough": 3 * 3600})[tier]
    case_timeout = getattr(mod, "CASE_TIMEOUT", 900)
    workdir = os.path.join(ROOT, "work", f"{pid}_{tier}_{seed}_{os.getpid()}")
    results, mech, timed_out, crashed = spawn_workers(pid, cases, nworkers, case_timeout, budget, workdir)
    mons, refusals, sigs, viols, errors, entered, absent = aggregate(mod, pid, cases, results, mech)

    # classify violations
    new, known_hits = [], {}
    classify = getattr(mod, "classify", lambda case, v: None)
    for i, v in viols:
        fid = None
        try:
            fid = classify(cases[i], v)
        except Exception:
            fid = None
        if fid and fid in open_findings:
            known_hits[fid] = known_hits.get(fid, 0) + 1
            wpath = os.path.join(ROOT, open_findings[fid].get("witness", f"replays/findings/{fid}_{pid}.json"))
            if not replay and not os.path.exists(wpath):  # keep one replayable witness per known finding
                os.makedirs(os.path.dirname(wpath), exist_ok=True)
                with open(wpath, "w") as f:
                    json.dump({"property": pid, "tier": tier, "seed": seed, "case": cases[i], "violation": v,
                               "finding": fid, "tree": env.tree_fingerprint()}, f, indent=1)
        else:
            new.append((i, v))

    vsummary = {}
    for i, v in viols:
        d = v.get("detail", {}) if isinstance(v.get("detail"), dict) else {}
        key = f"{v['monitor']}|{d.get('clause', d.get('what', ''))}|{d.get('mech', d.get('backend', ''))}"
        vsummary[key] = vsummary.get(key, 0) + 1

    # inconclusive?
    reasons = []
    missing = [i for i in range(len(cases)) if i not in results]
    if missing:
        reasons.append(f"{len(missing)} of {len(cases)} cases produced no result (workers timed out: {timed_out}, crashed: {len(crashed)})")
    if errors:
        reasons.append(f"{len(errors)} cases hit a harness error or watchdog; first: case {errors[0][0]}: {errors[0][1][-400:]}")
    if not replay:
        req = getattr(mod, "REQUIRED", {}).get(tier, {})
        for m, n in req.items():
            got = mons.get(m, {}).get("held", 0) + (mons.get(m, {}).get("violated", 0))
            if got < n:
                reasons.append(f"monitor {m}: {got} deciding evaluations < required {n}")
        for s in getattr(mod, "MECHANISMS_REQUIRED", []):
            if s not in absent and entered.get(s, 0) == 0:
                reasons.append(f"mechanism {s} exists but was never entered")

    # output
    rc = 0
    lines = []
    for fid, n in sorted(known_hits.items()):
        lines.append(f"KNOWN-FINDING: property={pid} {fid}: {open_findings[fid]['what']} (hit {n}x)")
    if not replay:
        for fid in sorted(set(open_findings) - set(known_hits)):
            # listed for this property but this run's workload did not reach its mechanism (e.g. only the thorough tier does)
            lines.append(f"KNOWN-FINDING: property={pid} {fid}: {open_findings[fid]['what']} (listed; not reached by this run: hit 0x)")
    if new:
        rc = 1
        rdir = os.path.join(ROOT, "replays", pid)
        os.makedirs(rdir, exist_ok=True)
        seen = set()
        for i, v in new:
            key = (v["monitor"],)
            if key in seen and len(seen) >= 1 and len(lines) > 40:
                continue
            seen.add(key)
            path = os.path.join(rdir, f"{tier}_s{seed}_c{i}_{v['monitor']}.json")
            if replay:
                path = os.path.abspath(replay)
            else:
                with open(path, "w") as f:
                    json.dump({"property": pid, "tier": tier, "seed": seed, "case": cases[i],
                               "violation": v, "tree": env.tree_fingerprint()}, f, indent=1)
            if len(lines) < 40:
                lines.append(f"VIOLATION property={pid} replay={os.path.relpath(path, ROOT)}  [{v['monitor']}] {json.dumps(v['detail'])[:400]}")
    if reasons:
        rc = rc or 2
        for r in reasons:
            lines.append(f"INCONCLUSIVE property={pid} {r}")
        for c in crashed[:2]:
            lines.append(f"  chunk {c['chunk']} rc={c['rc']} lost cases {c['lost_cases'][:6]} stderr: {c['stderr_tail'][-800:]}")

    wall = time.time() - t0
    nontrivial = sorted(s for s, nt in sigs.items() if nt)
    evaluations = sum(d["held"] + d["violated"] + d["refused"] for d in mons.values())
    if not replay:
        samples = []
        step = max(1, len(cases) // 4)
        for i in list(range(0, len(cases), step))[:4]:
            samples.append({"case": cases[i], "observed": {
                "counts": results.get(i, {}).get("counts"), "info": results.get(i, {}).get("info")}})
        coverage = {
            "evaluations": int(evaluations),
            "distinct_nontrivial": len(nontrivial),
            "rule": getattr(mod, "RULE", ""),
            "samples": samples,
            "cases_generated": len(cases),
            "cases_completed": len(results),
            "monitors": mons,
            "refusals_and_skips": dict(sorted(refusals.items(), key=lambda kv: -kv[1])[:40]),
            "mechanisms_entered": entered,
            "mechanisms_absent": absent,
            "known_findings_hit": known_hits,
            "violation_summary": vsummary,
            "new_violations": len(new),
            "inconclusive_reasons": reasons,
            "verdict": {0: "held_on_observed", 1: "violated", 2: "inconclusive"}[rc],
            "tree": env.tree_fingerprint(),
            "signature_examples": nontrivial[:12],
        }
        if hasattr(mod, "summarize"):
            try:
                coverage.update(mod.summarize([results[i] for i in sorted(results)]))
            except Exception as e:  # pragma: no cover
                coverage["summarize_error"] = repr(e)
        ev = {
            "property_id": pid, "tier": tier, "seed": int(seed), "level": "exploration",
            "coverage": coverage,
            "assumptions": getattr(mod, "ASSUMPTIONS", []),
            "wall_s": round(wall, 2),
            "violations": len(new),
        }
        os.makedirs(os.path.join(ROOT, "evidence"), exist_ok=True)
        with open(os.path.join(ROOT, "evidence", f"{pid}.json"), "w") as f:
            json.dump(ev, f, indent=1)

    print(f"[{pid} {tier} seed={seed}] cases={len(cases)} completed={len(results)} "
          f"evaluations={evaluations} distinct_nontrivial={len(nontrivial)} wall={wall:.1f}s")
    for m, d in sorted(mons.items()):
        print(f"  monitor {m:28s} held={d['held']} violated={d['violated']} refused={d['refused']} skipped={d['skipped']}")
    if refusals:
        top = sorted(refusals.items(), key=lambda kv: -kv[1])[:8]
        for k, v in top:
            print(f"  refusal/skip x{v}: {k}")
    if entered:
        print("  mechanisms entered: " + ", ".join(f"{k.split(':')[-1]}={v}" for k, v in entered.items()))
    for k, v in sorted(vsummary.items(), key=lambda kv: -kv[1])[:25]:
        print(f"  violations x{v}: {k}")
    for l in lines:
        print(l)
    print({0: "RESULT held on everything observed", 1: "RESULT violated", 2: "RESULT inconclusive"}[rc])
    if not keep and rc == 0:
        shutil.rmtree(workdir, ignore_errors=True)
    # prune stale work dirs
    return rc


def main(argv=None):
    ap = argparse.ArgumentParser()
    ap.add_argument("pid")
    ap.add_argument("--tier", default=os.environ.get("VERIF_TIER", "quick"), choices=["quick", "thorough"])
    ap.add_argument("--seed", type=int, default=int(os.environ.get("VERIF_SEED", "0")))
    ap.add_argument("--replay", default=None)
    ap.add_argument("--workers", type=int, default=None)
    ap.add_argument("--keep", action="store_true")
    a = ap.parse_args(argv)
    sys.exit(run(a.pid.upper(), a.tier, a.seed, a.replay, a.workers, a.keep))


if __name__ == "__main__":
    main()
