"""C12 - assembly preserves constituents; uncoupled parts simulate independently.

`rows_preserved`: compartments with different channel sets (sharing parameter names vt/eK/eCa with
different values), geometry and states are assembled into branches, cells and networks; every row of
the assembled table must equal the constituent's row (absent parameters stay NaN, absent channels
False) under contiguous global indices.  `alone_equiv`: network without synapses == each cell alone,
one-branch cell == branch, one-compartment branch == compartment.  `sibling_perm`: listing sibling
branches / cells in another order permutes the results and changes nothing else.
"""
import numpy as np

from jxmon.gen import trees

PID = 12
CH = ["HH", "Na", "K", "Km", "CaL", "CaT", "Leak"]
RULE = ("compartments carry random subsets of the 7 built-in channels with perturbed parameters (shared names vt, eK, eCa get "
        "different values in different constituents), random geometry/voltages; branches of 1-3 compartments, cells of 1-5 branches "
        "(random trees), networks of 1-3 cells; 6-10 steps with a stimulus per cell. distinct = (module kind, tree shape, channel "
        "multiset, monitor)")
ASSUMPTIONS = ["a compartment built and edited on its own is the specification of its row", "1e-9 relative for simulations (backends differ by rounding)"]
MECHANISMS = ["jaxley.modules.base:Module._gather_channels_from_constituents", "jaxley.modules.branch:Branch.__init__",
              "jaxley.modules.cell:Cell.__init__", "jaxley.modules.network:Network.__init__",
              "jaxley.utils.cell_utils:compute_children_and_parents", "jaxley.utils.cell_utils:merge_cells"]
MECHANISMS_REQUIRED = MECHANISMS[:5]
REQUIRED = {"quick": {"rows_preserved": 60, "alone_equiv": 20, "sibling_perm": 12},
            "thorough": {"rows_preserved": 1856, "alone_equiv": 150, "sibling_perm": 210}}
WALL_BUDGET = {"quick": 1500, "thorough": 4 * 3600}


def gen_comp(rng):
    chans = []
    for name in CH:
        if rng.random() < 0.35:
            chans.append({"name": name, "scale": float(rng.uniform(0.6, 1.6)), "shift": float(rng.uniform(-6, 6))})
    if not chans and rng.random() < 0.7:
        chans.append({"name": str(rng.choice(["HH", "Leak"])), "scale": 1.0, "shift": 0.0})
    return {"radius": float(rng.uniform(0.5, 3)), "length": float(rng.uniform(5, 30)), "ra": float(rng.uniform(50, 500)),
            "cm": float(rng.uniform(0.7, 2)), "v": float(rng.uniform(-75, -55)), "ch": chans, "gate": float(rng.uniform(0.05, 0.6))}


def gen_cell(rng, max_branches=5, ncomp_fixed=None):
    nb = int(rng.integers(1, max_branches + 1))
    par = trees.random_parents(rng, nb)
    par, _ = trees.shuffle_topological(rng, par)
    return {"parents": [int(p) for p in par],
            "branches": [[gen_comp(rng) for _ in range(int(rng.integers(1, 4)) if ncomp_fixed is None else ncomp_fixed)] for _ in range(nb)]}


def cases(seed, tier):
    n = 48 if tier == "quick" else 600
    out = []
    for k in range(n):
        rng = trees.rng_for(seed, PID, k)
        kind = ["network", "perm_cell", "branch", "network", "cell", "perm_cell", "perm_net", "perm_cell"][k % 8]
        if kind in ("network", "perm_net"):
            if k % 2 == 0:
                # cells of DIFFERENT depth and shape whose branches all have the same number of compartments: the only networks the
                # jaxley.stone / jaxley.thomas backends accept besides identical cells (they refuse unequal padded sizes per level)
                nc = int(rng.integers(1, 4))
                cells = [gen_cell(rng, [1, 3, 5, 6][i % 4], ncomp_fixed=nc) for i in range(int(rng.integers(2, 5)))]
                order = rng.permutation(len(cells))
                cells = [cells[i] for i in order]
            elif k % 8 == 3:
                # one or two cells of the SAME irregular morphology (different parameters): accepted by jaxley.stone / jaxley.thomas
                cands = [gen_cell(rng, 6) for _ in range(12)]
                # prefer a morphology in which a branch with children is shorter than the longest branch of its level (padding in the
                # custom solvers' index arrays)
                c0 = next((c for c in cands if trees.f1_precondition(c["parents"], [len(b) for b in c["branches"]])), cands[0])
                cells = [c0] + [{"parents": list(c0["parents"]), "branches": [[gen_comp(rng) for _ in b] for b in c0["branches"]]}
                                for _ in range(int(rng.integers(0, 2)))]
            else:
                cells = [gen_cell(rng, 3) for _ in range(int(rng.integers(1, 4)))]
        elif kind in ("cell", "perm_cell"):
            cells = [gen_cell(rng, 5)]
            if kind == "perm_cell":
                # hostile labellings: parents of later branches listed before parents of earlier ones (e.g. [-1,0,0,2,1])
                def inversions(c):
                    seen = list(dict.fromkeys(p for p in c["parents"][1:]))
                    return sum(1 for i in range(len(seen)) for j in range(i + 1, len(seen)) if seen[i] > seen[j]) + 0.01 * len(c["parents"])
                cells = [max([gen_cell(rng, 7) for _ in range(8)], key=inversions)]
        else:
            cells = [{"parents": [-1], "branches": [[gen_comp(rng) for _ in range(int(rng.integers(1, 4)))]]}]
        out.append({"kind": kind, "cells": cells, "T": int(rng.integers(6, 11)), "amp": float(rng.uniform(0.02, 0.2)),
                    "pseed": int(rng.integers(0, 2**31)),
                    "backend": ["jax.sparse", "jaxley.stone", "jaxley.thomas"][k % 3] if not (kind in ("network", "perm_net") and (k % 2 == 0 or k % 8 == 3)) else ["jaxley.stone", "jaxley.thomas"][(k // 2) % 2]})
    return out


# ------------------------------------------------------------------ worker side
def build_comp(c):
    import jaxley as jx
    import jaxley.channels as ch
    comp = jx.Compartment()
    comp.set("radius", c["radius"]); comp.set("length", c["length"]); comp.set("axial_resistivity", c["ra"])
    comp.set("capacitance", c["cm"]); comp.set("v", c["v"])
    for q in c["ch"]:
        obj = getattr(ch, q["name"])()
        comp.insert(obj)
        for key, val in obj.channel_params.items():
            if key in ("vt",) or key.startswith("e") or "_e" in key:
                comp.set(key, float(val) + q["shift"])
            elif "_g" in key:
                comp.set(key, float(val) * q["scale"])
        for key in obj.channel_states:
            comp.set(key, c["gate"])
    return comp


def build_branch(comps):
    import jaxley as jx
    return jx.Branch([build_comp(c) for c in comps])


def build_cell(cell):
    import jaxley as jx
    return jx.Cell([build_branch(b) for b in cell["branches"]], parents=cell["parents"])


def flat_comps(cells):
    return [c for cell in cells for b in cell["branches"] for c in b]


def expected_rows(case_cells):
    """list of dicts (one per compartment, in assembly order): column -> value from the compartment built alone"""
    rows = []
    for c in flat_comps(case_cells):
        comp = build_comp(c)
        r = comp.nodes.iloc[0].to_dict()
        rows.append({k: v for k, v in r.items() if not k.startswith(("global_", "local_")) and k != "controlled_by_param"})
    return rows


def check_rows(rec, m, cells, what, tag):
    import pandas as pd
    exp = expected_rows(cells)
    nd = m.nodes
    ok_n = len(nd) == len(exp)
    rec.check("rows_preserved", ok_n, what=f"{what}: number of rows", got=len(nd), want=len(exp), **tag)
    if not ok_n:
        return
    allcols = set().union(*[set(r) for r in exp])
    chan_names = {q["name"] for c in flat_comps(cells) for q in c["ch"]}
    bad = []
    for i, r in enumerate(exp):
        for col in allcols:
            if col not in nd.columns:
                bad.append((i, col, "column missing", None))
                continue
            got = nd[col].iloc[i]
            if col in r:
                w = r[col]
                same = (got == w) or (pd.isna(got) and pd.isna(w))
            elif col in chan_names:
                w = False
                same = (got is False) or (got == False and not pd.isna(got))  # noqa: E712
            else:
                w = float("nan")
                same = pd.isna(got)
            if not same:
                bad.append((i, col, got if not isinstance(got, float) else float(got), w))
    extra = [c for c in nd.columns if c not in allcols and not c.startswith(("global_", "local_")) and c != "controlled_by_param"]
    rec.check("rows_preserved", not bad and not extra, what=f"{what}: rows differ from the constituents", first=[str(b) for b in bad[:4]], extra_columns=extra, **tag)
    # contiguous hierarchical indices
    gi = nd["global_comp_index"].to_numpy()
    cell_idx, br_idx = [], []
    b = 0
    for ci, cell in enumerate(cells):
        for br in cell["branches"]:
            cell_idx += [ci] * len(br)
            br_idx += [b] * len(br)
            b += 1
    okidx = (list(gi) == list(range(len(nd))) and list(nd["global_branch_index"]) == br_idx and list(nd["global_cell_index"]) == cell_idx
             and list(nd.index) == list(range(len(nd))))
    rec.check("rows_preserved", okidx, what=f"{what}: global indices not contiguous/hierarchical", **tag)
    # channel registry = union of constituents
    got_names = sorted(c._name for c in m.channels)
    rec.check("rows_preserved", got_names == sorted(chan_names), what=f"{what}: channel registry is not the union of the constituents",
              got=got_names, want=sorted(chan_names), **tag)


def simulate(m, case, stim_rows, backend):
    import jax.numpy as jnp
    import jaxley as jx
    m.delete_stimuli(); m.delete_recordings()
    for r in stim_rows:
        m.select(nodes=[r]).stimulate(jnp.full((1, case["T"]), case["amp"]), verbose=False)
    m.record("v", verbose=False)
    out = np.asarray(jx.integrate(m, delta_t=0.025, voltage_solver=backend))
    m.delete_stimuli(); m.delete_recordings()
    return out


def run_case(case, rec):
    import jaxley as jx
    from jxmon.core import Refused

    cells = case["cells"]
    kind = case["kind"]
    shape = "|".join(trees.canonical_tree(c["parents"]) for c in cells)
    chans = "+".join(sorted({q["name"] for c in flat_comps(cells) for q in c["ch"]}))
    tag = dict(kind=kind, parents=[c["parents"] for c in cells], ncomp=[[len(b) for b in c["branches"]] for c in cells], channels=chans)
    hetero_net = len(cells) > 1 and any([len(b) for b in c["branches"]] != [len(b) for b in cells[0]["branches"]] or c["parents"] != cells[0]["parents"] for c in cells)
    uniform_nc = len({len(b) for c in cells for b in c["branches"]}) == 1
    backend = "jax.sparse" if (hetero_net and not uniform_nc) else case["backend"]
    tol = 1e-9

    if kind == "branch":
        br = rec.call("rows_preserved", build_branch, cells[0]["branches"][0], where="Branch(...)")
        check_rows(rec, br, cells, "Branch", tag)
        # one-branch cell == branch; one-compartment branch == compartment
        try:
            ob = rec.call("alone_equiv", simulate, br, case, [0], backend, where="branch")
            cell = jx.Cell([build_branch(cells[0]["branches"][0])], parents=[-1])
            oc = rec.call("alone_equiv", simulate, cell, case, [0], backend, where="one-branch cell")
            rec.check("alone_equiv", np.max(np.abs(ob - oc) / (1 + np.abs(ob))) <= tol, what="one-branch cell != branch", max_dev=float(np.max(np.abs(ob - oc))), **tag)
            c0 = cells[0]["branches"][0][0]
            comp = build_comp(c0)
            b1 = jx.Branch([build_comp(c0)])
            o1 = rec.call("alone_equiv", simulate, comp, case, [0], backend, where="compartment")
            o2 = rec.call("alone_equiv", simulate, b1, case, [0], backend, where="one-compartment branch")
            rec.check("alone_equiv", np.max(np.abs(o1 - o2) / (1 + np.abs(o1))) <= tol, what="one-compartment branch != compartment", max_dev=float(np.max(np.abs(o1 - o2))), **tag)
        except Refused:
            pass
        rec.sig(f"branch|{shape}|{chans}")
        return

    built_cells = [rec.call("rows_preserved", build_cell, c, where="Cell(...)") for c in cells]
    for bc, c in zip(built_cells, cells):
        check_rows(rec, bc, [c], "Cell", tag)
    if kind in ("network", "perm_net"):
        net = rec.call("rows_preserved", jx.Network, built_cells, where="Network(...)")
        check_rows(rec, net, cells, "Network", tag)
        # network without synapses == each cell alone
        offs = np.concatenate([[0], np.cumsum([len(flat_comps([c])) for c in cells])])
        try:
            on = rec.call("alone_equiv", simulate, net, case, [int(o) for o in offs[:-1]], backend, where=f"network {backend}")
            worst = 0.0
            for i, bc in enumerate(built_cells):
                oc = rec.call("alone_equiv", simulate, bc, case, [0], backend, where="cell alone")
                worst = max(worst, float(np.max(np.abs(oc - on[offs[i]:offs[i + 1]]) / (1 + np.abs(oc)))))
            rec.check("alone_equiv", worst <= tol and np.all(np.isfinite(on)), what="network without synapses != cells alone", max_rel_dev=worst, backend=backend, **tag)
        except Refused:
            pass
        rec.sig(f"network|{shape}|{chans}")
        if kind == "perm_net" and len(cells) > 1:
            rng = np.random.default_rng(case["pseed"])
            perm = [int(i) for i in rng.permutation(len(cells))]
            try:
                net2 = jx.Network([build_cell(cells[i]) for i in perm])
                offs2 = np.concatenate([[0], np.cumsum([len(flat_comps([cells[i]])) for i in perm])])
                o2 = rec.call("sibling_perm", simulate, net2, case, [int(o) for o in offs2[:-1]], "jax.sparse", where="permuted cells")
                o1 = rec.call("sibling_perm", simulate, net, case, [int(o) for o in offs[:-1]], "jax.sparse", where="original cells")
                worst = 0.0
                for j, i in enumerate(perm):
                    worst = max(worst, float(np.max(np.abs(o2[offs2[j]:offs2[j + 1]] - o1[offs[i]:offs[i + 1]]) / (1 + np.abs(o1[offs[i]:offs[i + 1]])))))
                rec.check("sibling_perm", worst <= tol, what="permuting the cells of a network changes more than the order", perm=perm, max_rel_dev=worst, **tag)
                rec.sig(f"perm_net|{shape}|{perm}")
            except Refused:
                pass
        return

    cell = built_cells[0]
    rec.sig(f"cell|{shape}|{chans}")
    if kind == "perm_cell" and len(cells[0]["parents"]) >= 3:
        # relabel the branches (random topological relabelling = reordering of siblings and of their subtrees)
        rng = np.random.default_rng(case["pseed"])
        par = cells[0]["parents"]
        for attempt in range(4):
            new_par, perm = trees.shuffle_topological(rng, par)   # perm[old] = new
            if perm != list(range(len(par))):
                break
        inv = [0] * len(par)
        for old, new in enumerate(perm):
            inv[new] = old
        cell2_spec = {"parents": [int(p) for p in new_par], "branches": [cells[0]["branches"][inv[j]] for j in range(len(par))]}
        try:
            cell2 = build_cell(cell2_spec)
            for be in (["jax.sparse", "jaxley.stone"] if case["backend"] != "jaxley.thomas" else ["jaxley.thomas", "jax.sparse"]):
                o1 = rec.call("sibling_perm", simulate, cell, case, [0], be, where=f"original {be}")
                o2 = rec.call("sibling_perm", simulate, cell2, case, [0], be, where=f"relabelled {be}")
                # map rows: branch j of cell2 is branch inv[j] of cell
                st1 = np.concatenate([[0], np.cumsum([len(b) for b in cells[0]["branches"]])])
                st2 = np.concatenate([[0], np.cumsum([len(b) for b in cell2_spec["branches"]])])
                worst = 0.0
                for j in range(len(par)):
                    a = o2[st2[j]:st2[j + 1]]
                    b = o1[st1[inv[j]]:st1[inv[j] + 1]]
                    worst = max(worst, float(np.max(np.abs(a - b) / (1 + np.abs(b)))))
                rec.check("sibling_perm", worst <= tol and np.all(np.isfinite(o1)), what="relabelling sibling branches changes more than the order",
                          new_parents=cell2_spec["parents"], max_rel_dev=worst, backend=be, **tag)
            rec.sig(f"perm_cell|{shape}|{perm}")
        except Refused:
            pass


def classify(case, v):
    return None
