"""C16 - SWC import preserves the traced morphology.

Events: cell.comb_parents, per-branch length and per-compartment radius from .nodes, .groups and
.xyzr after read_swc of a generated file.  Oracle R5 (independent interpreter of the same file):
convention-free facts for every file (one branch per section with the file's connectivity, type
groups partition the branches, totals independent of ncomp, radii >= min_radius) and the documented
conventions (soma cylinder, ignored soma gap, zero length -> 1 um, radius interpolation,
max_branch_len splitting).
"""
import os

import numpy as np

from jxmon.gen import swc as swcgen, trees

PID = 16
RULE = ("random depth-first SWC trees: 1-15 (quick) / 1-40 (thorough) sections of 1-8 points, types 2/3/4 and custom 6, type changes "
        "along unbranched paths, single- and multi-point somata, zero-length steps, neurites leaving the soma's end or (separate "
        "class, convention-free facts only) its first point; ncomp 1-8, min_radius, max_branch_len. distinct = (soma kind, #sections, "
        "types present, ncomp, options); non-trivial = at least one neurite section")
ASSUMPTIONS = ["R5 (jxmon/oracles/swcref.py) encodes the conventions documented in jaxley.io.swc / cell_utils docstrings and comments",
               "branches are matched to sections through the traced coordinates exposed by cell.xyzr (no assumption on branch order)"]
MECHANISMS = ["jaxley.io.swc:read_swc", "jaxley.io.swc:swc_to_jaxley", "jaxley.utils.cell_utils:_split_into_branches",
              "jaxley.utils.cell_utils:_build_parents", "jaxley.utils.cell_utils:_compute_pathlengths",
              "jaxley.utils.cell_utils:_radius_generating_fns", "jaxley.utils.cell_utils:build_radiuses_from_xyzr",
              "jaxley.utils.cell_utils:_split_long_branches"]
MECHANISMS_REQUIRED = MECHANISMS[:7]
REQUIRED = {"quick": {"structure": 60, "lengths": 60, "radii": 60, "groups": 60, "ncomp_indep": 30, "split": 8},
            "thorough": {"structure": 1120, "lengths": 528, "radii": 715, "groups": 560, "ncomp_indep": 560, "split": 186}}
WALL_BUDGET = {"quick": 1500, "thorough": 4 * 3600}


def cases(seed, tier):
    n = 64 if tier == "quick" else 1400
    out = []
    for k in range(n):
        rng = trees.rng_for(seed, PID, k)
        spec = swcgen.random_swc(rng, max_sections=int(rng.integers(1, 16 if tier == "quick" else 41)), single_point_soma=bool(k % 2),
                                 from_soma_start=(k % 9 == 4), max_pts=int(rng.integers(1, 9)), zero_len_prob=0.08 if k % 3 == 0 else 0.0)
        out.append({"swc": spec, "k": k, "ncomp": int(rng.integers(1, 9)), "ncomp2": int(rng.integers(1, 9)),
                    "min_radius": [None, 0.5, 1.0][k % 3] if k % 2 else None,
                    "max_branch_len": float(rng.uniform(20, 120)) if k % 5 == 3 else None})
    return out


def _too_sparse(rows, sec, sps, mb):
    """Does the documented splitting rule (equal numbers of traced points per piece, more pieces until every piece is shorter than
    max_branch_len, at most 10) run out of traced points for this section?  Then a piece degenerates to <= 1 point."""
    from jxmon.oracles import swcref as R5
    pts = sec["points"]
    d = R5.seg_lengths(rows, sec, sps)
    if len(pts) < 2 or float(np.sum(d)) <= mb:
        return False
    for n in range(2, 12):
        k = len(pts) // n
        if k <= 1:
            return True
        bounds = [(0, k)] + [(i * k - 1, (i + 1) * k) for i in range(1, n - 1)] + [((n - 1) * k - 1, len(pts))]
        longest = max(float(np.sum(d[a:b - 1])) for a, b in bounds)
        if longest <= mb:
            return False
    return False


def _expected_pieces(rows, sec, sps, mb):
    """lengths of the pieces of one section under the documented rule (zero-length pieces are set to 1 um)"""
    from jxmon.oracles import swcref as R5
    pts = sec["points"]
    d = R5.seg_lengths(rows, sec, sps)
    L = float(np.sum(d))
    if len(pts) < 2 or L <= mb:
        return [R5.length(rows, sec, sps)]
    best = None
    for n in range(2, 12):
        k = len(pts) // n
        bounds = [(0, k)] + [(i * k - 1, (i + 1) * k) for i in range(1, n - 1)] + [((n - 1) * k - 1, len(pts))]
        lens = [float(np.sum(d[a:b - 1])) for a, b in bounds]
        best = lens
        if max(lens) <= mb:
            break
    return [1.0 if x == 0.0 else x for x in best]


def _first_piece_is_gap(rows, sec, sps, mb):
    """single-point-soma file, section leaving the soma: does the documented splitting rule end with pieces of two traced points?
    Then the first piece is [soma point, first neurite point], whose length (gap ignored) is 0 and is set to 1 um."""
    from jxmon.oracles import swcref as R5
    by_id = {r["id"]: r for r in rows}
    pts = sec["points"]
    if not sps or len(pts) < 2 or by_id[pts[0]]["type"] != 1 or by_id[pts[1]]["type"] == 1:
        return False
    d = R5.seg_lengths(rows, sec, sps)
    if float(np.sum(d)) <= mb:
        return False
    for n in range(2, 12):
        k = len(pts) // n
        if k <= 1:
            return False
        bounds = [(0, k)] + [(i * k - 1, (i + 1) * k) for i in range(1, n - 1)] + [((n - 1) * k - 1, len(pts))]
        if max(float(np.sum(d[a:b - 1])) for a, b in bounds) <= mb or n > 10:
            return k == 2
    return False


def run_case(case, rec):
    import warnings
    import jaxley as jx
    from jxmon.core import Refused
    from jxmon.env import ROOT
    from jxmon.oracles import swcref as R5

    wd = os.path.join(ROOT, "work", "swc")
    os.makedirs(wd, exist_ok=True)
    path = os.path.join(wd, f"c16_{os.getpid()}_{case['k']}.swc")
    swcgen.write(case["swc"], path)
    try:
        rows = R5.parse(path)
        secs = R5.sections(rows)
        sps = R5.is_single_point_soma(rows)
        tag = dict(single_point_soma=bool(sps), n_sections=len(secs), ncomp=case["ncomp"], from_soma_start=case["swc"]["from_soma_start"],
                   types=sorted({s["type"] for s in secs}), k=case["k"])
        def read(ncomp, **kw):
            with warnings.catch_warnings():
                warnings.simplefilter("ignore")
                return jx.read_swc(path, ncomp=ncomp, **kw)
        try:
            cell = rec.call("structure", read, case["ncomp"], min_radius=case["min_radius"], where="read_swc")
        except Refused:
            return
        nb = len(cell.comb_parents)
        conv = not case["swc"]["from_soma_start"]
        # ---- structure: one branch per section, same connectivity (matched through the traced coordinates)
        keys = {R5.key_of(rows, s): i for i, s in enumerate(secs)}
        padded = nb == len(secs) + 1
        b2s = {}
        for b in range(nb):
            kx = tuple(tuple(np.round(np.asarray(p, dtype=float), 5)) for p in cell.xyzr[b])
            if kx in keys:
                b2s[b] = keys[kx]
        ok_count = (nb == len(secs)) or (padded and not conv)
        ok_bij = len(set(b2s.values())) == len(b2s) and len(b2s) == len(secs)
        rec.check("structure", ok_count and ok_bij, what="branches are not in one-to-one correspondence with the file's sections", n_branches=nb,
                  matched=len(b2s), **tag)
        if not (ok_count and ok_bij):
            return
        par = [int(p) for p in cell.comb_parents]
        ok_par = True
        for b, s in b2s.items():
            ps = secs[s]["parent"]
            if ps == -1:
                ok_par = ok_par and (par[b] == -1 or (padded and par[b] == 0))
            elif padded and secs[ps]["parent"] == -1 and par[b] in (0,) and False:
                pass
            else:
                if par[b] in b2s:
                    ok_par = ok_par and (b2s[par[b]] == ps)
                else:
                    ok_par = ok_par and padded  # attached to the padding root
        rec.check("structure", ok_par, what="parent-child connectivity differs from the file", parents=par[:30],
                  section_parents=[secs[b2s[b]]["parent"] if b in b2s else None for b in range(nb)][:30], **tag)
        nd = cell.nodes
        # ---- lengths and radii (documented conventions; not for the soma-start class)
        if conv:
            badL, badR = [], []
            for b, s in b2s.items():
                rowsb = nd[nd["global_branch_index"] == b]
                Lb = float(rowsb["length"].sum())
                want = R5.length(rows, secs[s], sps)
                if abs(Lb - want) > 1e-9 * (1 + want):
                    badL.append((b, secs[s]["points"][:6], Lb, want))
                rr = rowsb["radius"].to_numpy(dtype=float)
                wr = R5.radii(rows, secs, s, case["ncomp"], sps, case["min_radius"])
                # jaxley shifts the first/last interpolation knot by 1e-8 (normalised path length): allow 1e-6 relative
                if rr.shape != wr.shape or np.max(np.abs(rr - wr) / (1 + wr)) > 1e-6:
                    badR.append((b, secs[s]["points"][:6], rr.tolist()[:6], wr.tolist()[:6]))
            rec.check("lengths", not badL, what="branch length differs from the traced path length", first=str(badL[:2]), n_bad=len(badL), **tag)
            rec.check("radii", not badR, what="compartment radii differ from the interpolation of the traced radii", first=str(badR[:2]), n_bad=len(badR),
                      min_radius=case["min_radius"], **tag)
        if case["min_radius"] is not None:
            rec.check("radii", bool((nd["radius"] >= case["min_radius"] - 1e-12).all()), what="radius below min_radius", **tag)
        # ---- groups partition the branches by SWC type
        want_groups = {}
        for b, s in b2s.items():
            want_groups.setdefault(R5.group_name(secs[s]["type"]), set()).update(nd.index[nd["global_branch_index"] == b].tolist())
        got = {k2: set(int(x) for x in v) for k2, v in cell.groups.items()}
        if padded:  # the padding root inserted for files with several roots is not a traced section: leave it out
            pad_rows = set(nd.index[nd["global_branch_index"].isin([b for b in range(nb) if b not in b2s])].tolist())
            got = {k2: v - pad_rows for k2, v in got.items()}
            got = {k2: v for k2, v in got.items() if v}
        wrong = {}
        for g in set(want_groups) | set(got):
            if want_groups.get(g, set()) != got.get(g, set()):
                # report in terms of branches
                gb = sorted(set(nd.loc[sorted(got.get(g, set())), "global_branch_index"].tolist())) if got.get(g) else []
                wb = sorted(set(nd.loc[sorted(want_groups.get(g, set())), "global_branch_index"].tolist())) if want_groups.get(g) else []
                wrong[g] = {"got_branches": gb[:12], "want_branches": wb[:12]}
        if case["swc"]["from_soma_start"]:
            # the soma's first point is a branch point here; jaxley represents it by a padding branch of type 'custom' (documented
            # in a code comment): conventions are not judged for this class, only the neurite/soma sections proper
            lone = set()
            for b, s in b2s.items():
                if secs[s]["points"] == [rows[0]["id"]]:
                    lone |= set(nd.index[nd["global_branch_index"] == b].tolist())
            want_groups = {g: v - lone for g, v in want_groups.items()}
            got = {g: v - lone for g, v in got.items()}
            got = {g: v for g, v in got.items() if v}
            want_groups = {g: v for g, v in want_groups.items() if v}
            wrong = {g: 1 for g in set(want_groups) | set(got) if want_groups.get(g, set()) != got.get(g, set())}
        last_type = rows[-1]["type"]
        rec.check("groups", not wrong, what="type groups do not partition the branches by SWC type", wrong=wrong, last_row_type=last_type,
                  first_neurite_type=rows[1]["type"] if len(rows) > 1 else None, **tag)
        # ---- totals and connectivity independent of ncomp
        try:
            cell2 = rec.call("ncomp_indep", read, case["ncomp2"], min_radius=case["min_radius"], where="read_swc other ncomp")
            nd2 = cell2.nodes
            L1 = nd.groupby("global_branch_index")["length"].sum().to_numpy()
            L2 = nd2.groupby("global_branch_index")["length"].sum().to_numpy()
            rec.check("ncomp_indep", len(L1) == len(L2) and np.allclose(L1, L2, rtol=1e-9) and [int(p) for p in cell2.comb_parents] == par,
                      what="branch lengths/connectivity depend on ncomp", ncomp2=case["ncomp2"], **tag)
        except Refused:
            pass
        # ---- max_branch_len
        if case["max_branch_len"] is not None and conv:
            mb = case["max_branch_len"]
            try:
                cs = rec.call("split", read, case["ncomp"], max_branch_len=mb, where="read_swc(max_branch_len)")
            except Refused as r:
                cs = None
                # the statement says what read_swc yields for every well-formed file and every max_branch_len: raising is not that
                rec.counts["split"]["refused"] -= 1
                min_pts = min(len(s["points"]) for s in secs)
                rec.violated("split", what="read_swc(max_branch_len) raised", error=repr(r.exc)[:160], max_branch_len=mb,
                             longest_section=float(max(R5.length(rows, s, sps) for s in secs)),
                             sparse_section=bool(any(_too_sparse(rows, s, sps, mb) for s in secs)), **tag)
            if cs is not None:
                nds = cs.nodes
                Ls = nds.groupby("global_branch_index")["length"].sum().to_numpy()
                pars = [int(p) for p in cs.comb_parents]
                # pieces of one section form a chain in order; concatenating their point lists (overlap dropped) gives the section
                total_ok = abs(float(Ls.sum()) - float(sum(R5.length(rows, s, sps) for s in secs))) <= 1e-6 * (1 + float(Ls.sum())) or \
                    any(R5.length(rows, s, sps) == 1.0 for s in secs)
                by_id = {r["id"]: r for r in rows}
                cover_ok = True
                npieces = {}
                for s_i, s in enumerate(secs):
                    full = [tuple(np.round(np.concatenate([by_id[p]["xyz"], [by_id[p]["r"]]]), 5)) for p in s["points"]]
                    # find the chain of split branches whose points tile `full`
                    pos, cnt = 0, 0
                    for b in range(len(pars)):
                        kx = [tuple(np.round(np.asarray(p, dtype=float), 5)) for p in cs.xyzr[b]]
                        if pos < len(full) and kx[0] == full[pos if pos == 0 else pos - 1] and kx == full[(pos if pos == 0 else pos - 1):(pos if pos == 0 else pos - 1) + len(kx)]:
                            pos = (pos if pos == 0 else pos - 1) + len(kx)
                            cnt += 1
                    npieces[s_i] = cnt
                    cover_ok = cover_ok and (pos == len(full) or cnt == 0)
                long_ok = bool(np.all(Ls <= mb * (1 + 1e-9))) or len(Ls) > len(secs)  # the documented 10-piece stop may leave long pieces
                rec.check("split", total_ok and len(Ls) >= len(secs), what="max_branch_len: total length not preserved / sections lost",
                          total=float(Ls.sum()), want_total=float(sum(R5.length(rows, s, sps) for s in secs)), n_branches=len(Ls), max_branch_len=mb,
                          predicted_zero_pieces=int(sum(_first_piece_is_gap(rows, s, sps, mb) for s in secs)), **tag)
                too_long = [float(x) for x in Ls if x > mb * (1 + 1e-9)]
                exp = []
                for s in secs:
                    exp += _expected_pieces(rows, s, sps, mb)
                same = len(exp) == len(Ls) and np.allclose(sorted(exp), sorted(Ls.tolist()), rtol=1e-9, atol=1e-9)
                rec.check("split", same, what="max_branch_len: piece lengths differ from the documented splitting rule (equal numbers of traced points, "
                          "more pieces until every piece is below the limit, at most 11)", got=sorted(float(x) for x in Ls)[:12], want=sorted(exp)[:12],
                          too_long=too_long[:5], max_branch_len=mb, **tag)
        opts = f"mr{case['min_radius']}|mb{int(bool(case['max_branch_len']))}"
        rec.sig(f"sps{int(sps)}|n{len(secs)}|t{tag['types']}|nc{case['ncomp']}|{opts}|fs{int(case['swc']['from_soma_start'])}", nontrivial=len(secs) > 1)
    finally:
        if os.path.exists(path):
            os.remove(path)


def classify(case, v):
    d = v.get("detail", {})
    # F25: max_branch_len splitting crashes when a section has too few traced points for the number of pieces it needs
    if v["monitor"] == "split" and d.get("what") == "read_swc(max_branch_len) raised" and d.get("sparse_section") and \
            ("arrays used as indices must be of integer" in str(d.get("error")) or "truth value of an array" in str(d.get("error"))):
        return "F25"
    # F26: single-point-soma file + max_branch_len: a piece made of the soma point and the first neurite point has length 0
    # (gap ignored) and is set to 1 um: the total grows by exactly 1 um per such piece
    if v["monitor"] == "split" and d.get("what", "").startswith("max_branch_len: total length") and d.get("single_point_soma") \
            and d.get("predicted_zero_pieces", 0) > 0 and abs((d.get("total", 0) - d.get("want_total", 0)) - d["predicted_zero_pieces"]) <= 1e-6:
        return "F26"
    # F17: single-point-soma files: the branch that starts at row 2 is assigned the type of the file's LAST row
    if v["monitor"] == "groups" and d.get("single_point_soma") and d.get("last_row_type") != d.get("first_neurite_type"):
        wrong = d.get("wrong", {})
        from jxmon.oracles.swcref import group_name
        gl, gf = group_name(d.get("last_row_type")), group_name(d.get("first_neurite_type"))
        if set(wrong) <= {gl, gf}:
            return "F17"
    return None
