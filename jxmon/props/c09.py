"""C09 - synaptic current flows from the listed pre- to the listed post-compartment.

`ref_sim`: passive networks (leak optional) with 1-3 interleaved synapse types, unique per-edge
parameters and unique voltages; recorded voltages of all compartments over a few steps are compared
with an independent reference: synaptic state from the Abbott-Marder closed form at the OLD pre
voltage, synaptic conductances/currents as absolute point terms on the POST compartment in the R1
system.  The secant linearisation of a pre-voltage dependent current is accepted in both of its
first-order-consistent forms (scheme-ambiguity set, DESIGN.md R3).
`charge_attribution`: the same at dt=1e-4..1e-3 with TanhRateSynapse only: C_j dv_j = -dt*sum I_k.
`order_indep`: the same multiset of edges created in another order / another type order.
`zero_g`: zero conductances leave each cell exactly as simulated alone.
`edge_select`: parameters set through edge / synapse-type views reach exactly the selected rows and
the simulation follows the table.
"""
import numpy as np

from jxmon.gen import models, trees

PID = 9
SYN = ["IonotropicSynapse", "TestSynapse", "TanhRateSynapse"]
RULE = ("2-6 cells of 1-3 branches x 1-3 compartments, 1-12 edges incl. autapses, fan-in, fan-out, duplicated (pre,post) pairs, "
        "1-3 synapse types interleaved in the edge table, unique per-edge gS/e_syn/k_minus/x_offset/slope, unique voltages, "
        "backends that accept the network, bwd_euler and crank_nicolson, 1-5 steps. distinct = (n types, has autapse, fan-in, "
        "duplicate pair, backend, solver, monitor)")
ASSUMPTIONS = [
    "synaptic current in nA enters the post compartment as an absolute current (area conversion is jaxley's internal business: "
    "the reference works in absolute units)",
    "scheme-ambiguity set {post-only secant, joint pre+post secant} for currents that depend on the pre voltage",
    "Abbott-Marder kinetics of R2 for IonotropicSynapse; TestSynapse = same with k_minus=1/40, e_syn=0",
]
MECHANISMS = ["jaxley.modules.network:Network._step_synapse_state", "jaxley.modules.network:Network._synapse_currents",
              "jaxley.utils.syn_utils:gather_synapes", "jaxley.modules.network:Network._append_multiple_synapses",
              "jaxley.connect:connect", "jaxley.utils.cell_utils:convert_point_process_to_distributed"]
MECHANISMS_REQUIRED = MECHANISMS
REQUIRED = {"quick": {"ref_sim": 40, "charge_attribution": 10, "order_indep": 10, "zero_g": 10, "edge_select": 10},
            "thorough": {"ref_sim": 428, "charge_attribution": 80, "order_indep": 80, "zero_g": 80, "edge_select": 320}}
WALL_BUDGET = {"quick": 1500, "thorough": 4 * 3600}


def gen_net(rng, hetero_ok=True, ncell=None):
    ncell = ncell or int(rng.integers(2, 7))
    homog = not hetero_ok
    cells = []
    base = None
    for _ in range(ncell):
        nb = int(rng.integers(1, 4))
        par = trees.random_parents(rng, nb)
        c = {"parents": [int(p) for p in par], "ncomp": [int(x) for x in rng.integers(1, 4, nb)]}
        if homog:
            base = base or c
            c = dict(base)
        cells.append(c)
    return {"kind": "network", "cells": cells, "pattern": "random", "labelling": "topo"}


def gen_edges(rng, n, ntypes, nedges):
    edges = []
    for _ in range(nedges):
        mode = rng.random()
        if mode < 0.12:
            a = int(rng.integers(0, n)); b = a  # autapse
        elif mode < 0.3 and edges:
            a, b = edges[int(rng.integers(0, len(edges)))][:2]  # duplicate pair
        elif mode < 0.5 and edges:
            a, b = int(rng.integers(0, n)), edges[int(rng.integers(0, len(edges)))][1]  # fan-in
        elif mode < 0.65 and edges:
            a, b = edges[int(rng.integers(0, len(edges)))][0], int(rng.integers(0, n))  # fan-out
        else:
            a, b = int(rng.integers(0, n)), int(rng.integers(0, n))
        t = int(rng.integers(0, ntypes))
        p = {"g": float(trees.logu(rng, 1e-4, 2e-2)), "e": float(rng.uniform(-85, 10)), "k": float(trees.logu(rng, 5e-3, 0.5)),
             "x": float(rng.uniform(-70, -40)), "sl": float(trees.logu(rng, 0.02, 0.5)), "s": float(rng.uniform(0.05, 0.9))}
        edges.append([int(a), int(b), t, p])
    return edges


def cases(seed, tier):
    n = 84 if tier == "quick" else 1400
    out = []
    for k in range(n):
        rng = trees.rng_for(seed, PID, k)
        kind = ["ref_sim", "ref_sim", "ref_sim", "charge", "order", "zero", "select"][k % 7]
        backend = ["jax.sparse", "jaxley.stone", "jaxley.thomas"][k % 3]
        st = gen_net(rng, hetero_ok=(backend == "jax.sparse"))
        ncomp = trees.total_comps(st)
        ntypes = int(rng.integers(1, 4))
        edges = gen_edges(rng, ncomp, ntypes, int(rng.integers(1, 13)))
        if kind == "charge":
            for e in edges:
                e[2] = 2
        p = trees.passive_params(rng, ncomp)
        p["radius"] = [float(x) for x in rng.uniform(0.5, 5, ncomp)]
        p["length"] = [float(x) for x in rng.uniform(5, 50, ncomp)]
        p["ra"] = [float(x) for x in rng.uniform(50, 500, ncomp)]
        p["cm"] = [float(x) for x in rng.uniform(0.5, 2, ncomp)]
        p["g"] = [float(x) for x in trees.logu(rng, 1e-5, 1e-3, ncomp)] if k % 2 else [0.0] * ncomp
        p["v"] = [float(x) for x in rng.uniform(-80, -20, ncomp)]
        out.append({"kind": kind, "struct": st, "edges": edges, "params": p, "backend": backend,
                    "solver": ["bwd_euler", "crank_nicolson"][(k // 7) % 2],
                    "dt": float(trees.logu(rng, 1e-4, 1e-3)) if kind == "charge" else float(rng.choice([0.025, 0.1, 0.5])),
                    "T": 1 if kind == "charge" else int(rng.integers(1, 6)), "perm_seed": int(rng.integers(0, 2**31))})
    return out


# ------------------------------------------------------------------ reference
def syn_current_tanh(p, vpre):
    return -p["g"] * np.tanh((vpre - p["x"]) * p["sl"])


def ref_run(case, variant):
    """-> (T+1, n) voltages. variant in {'post_only', 'joint'} (secant form for TanhRateSynapse)."""
    from jxmon.oracles import cable
    st, p = case["struct"], case["params"]
    n = trees.total_comps(st)
    v = np.asarray(p["v"], dtype=float)
    s = [e[3]["s"] for e in case["edges"]]
    out = [v.copy()]
    dt = case["dt"]
    for _ in range(case["T"]):
        gabs, geabs, inj = np.zeros(n), np.zeros(n), np.zeros(n)
        for i, (a, b, t, q) in enumerate(case["edges"]):
            if t in (0, 1):
                km = q["k"] if t == 0 else 1.0 / 40.0
                sinf = 1.0 / (1.0 + np.exp((-35.0 - v[a]) / 10.0))
                tau = (1.0 - sinf) / km
                s[i] = sinf + (s[i] - sinf) * np.exp(-dt / tau)
                G = q["g"] * s[i]
                E = q["e"] if t == 0 else 0.0
                gabs[b] += G
                geabs[b] += G * E
            else:
                I0 = syn_current_tanh(q, v[a])
                if variant == "post_only":
                    inj[b] -= I0
                else:
                    d = 1e-3
                    slope = (syn_current_tanh(q, v[a] + d) - I0) / d
                    gabs[b] += slope
                    inj[b] += slope * v[b] - I0
        v = cable.step(st["cells"], p["radius"], p["length"], p["ra"], p["cm"], v, dt, case["solver"], p["g"], p["e"], inj, gabs, geabs)
        out.append(v.copy())
    return np.asarray(out)


# ------------------------------------------------------------------ worker side
def build_net(case, order=None, zero_g=False, set_params=True):
    import jaxley as jx
    import jaxley.synapses as sy
    from jaxley.connect import connect
    from jxmon import build
    net = build.build_structure(case["struct"])
    build.set_passive(net, case["params"], leak=any(g > 0 for g in case["params"]["g"]))
    order = list(range(len(case["edges"]))) if order is None else order
    for i in order:
        a, b, t, q = case["edges"][i]
        connect(net.select(nodes=[a]), net.select(nodes=[b]), getattr(sy, SYN[t])())
    if set_params:
        for row, i in enumerate(order):
            a, b, t, q = case["edges"][i]
            v = net.select(edges=[row])
            name = SYN[t]
            if t == 0:
                v.set(f"{name}_gS", 0.0 if zero_g else q["g"]); v.set(f"{name}_e_syn", q["e"]); v.set(f"{name}_k_minus", q["k"]); v.set(f"{name}_s", q["s"])
            elif t == 1:
                v.set(f"{name}_gC", 0.0 if zero_g else q["g"]); v.set(f"{name}_c", q["s"])
            else:
                v.set(f"{name}_gS", 0.0 if zero_g else q["g"]); v.set(f"{name}_x_offset", q["x"]); v.set(f"{name}_slope", q["sl"])
    net.record("v", verbose=False)
    return net


def simulate(net, case, **kw):
    import jaxley as jx
    return np.asarray(jx.integrate(net, delta_t=case["dt"], t_max=case["dt"] * (case["T"] - 1) + 1e-12 * case["dt"], solver=case["solver"],
                                   voltage_solver=case["backend"], **kw)).T


def features(case):
    e = case["edges"]
    pairs = [(a, b) for a, b, _, _ in e]
    posts = [b for _, b, _, _ in e]
    return f"types{len(set(t for _, _, t, _ in e))}|aut{int(any(a == b for a, b in pairs))}|fanin{int(len(set(posts)) < len(posts))}|dup{int(len(set(pairs)) < len(pairs))}"


def run_case(case, rec):
    from jxmon.core import Refused
    kind = case["kind"]
    tag = dict(backend=case["backend"], solver=case["solver"], dt=case["dt"], T=case["T"], n_edges=len(case["edges"]),
               types=[e[2] for e in case["edges"]], pairs=[[e[0], e[1]] for e in case["edges"]])
    net = rec.call("build", build_net, case)
    monitor = {"ref_sim": "ref_sim", "charge": "charge_attribution", "order": "order_indep", "zero": "zero_g", "select": "edge_select"}[kind]
    try:
        out = rec.call(monitor, simulate, net, case, where=f"integrate {case['solver']}/{case['backend']}")
    except Refused:
        return
    if out.shape[0] != case["T"] + 1:
        rec.violated(monitor, what="unexpected number of steps", got=list(out.shape), **tag)
        return
    rec.sig(f"{monitor}|{features(case)}|{case['backend']}|{case['solver']}")
    scale = 1 + np.max(np.abs(out))

    def judge_ref(mon, o, c):
        devs = {}
        for var in ("post_only", "joint"):
            ref = ref_run(c, var)
            devs[var] = float(np.max(np.abs(o - ref)) / scale)
        best = min(devs.values())
        tol = 1e-7 if mon != "charge_attribution" else 1e-4 * float(np.max(np.abs(o[1] - o[0])) / scale + 1e-12)
        ref = ref_run(c, min(devs, key=devs.get))
        j = np.unravel_index(np.argmax(np.abs(o - ref)), o.shape)
        # which compartment, if any, received the current that should have gone to j (diagnosis only)
        rec.check(mon, np.all(np.isfinite(o)) and best <= tol, what="voltages differ from the reference built from .edges semantics", deviations=devs,
                  step=int(j[0]), comp=int(j[1]), got=float(o[j]), want=float(ref[j]), **tag)

    if kind in ("ref_sim", "charge"):
        judge_ref(monitor, out, case)
        if kind == "ref_sim" and case["perm_seed"] % 2 == 0:
            # geometry of postsynaptic compartments supplied at integrate time (data_set): the injected synaptic current is an
            # absolute current, so the reference only changes its radius
            import copy
            rng = np.random.default_rng(case["perm_seed"])
            c3 = copy.deepcopy(case)
            ps = None
            for b in sorted(set(e[1] for e in case["edges"]))[:2]:
                newr = float(c3["params"]["radius"][b] * rng.uniform(1.5, 3.0))
                c3["params"]["radius"][b] = newr
                ps = net.select(nodes=[b]).data_set("radius", newr, ps)
            try:
                o3 = rec.call(monitor, simulate, net, case, param_state=ps, where="data_set radius of post compartments")
            except Refused:
                return
            judge_ref(monitor, o3, c3)
        return
    if kind == "order":
        rng = np.random.default_rng(case["perm_seed"])
        order = [int(i) for i in rng.permutation(len(case["edges"]))]
        try:
            net2 = build_net(case, order=order)
            out2 = rec.call(monitor, simulate, net2, case, where="permuted creation order")
        except Refused:
            return
        rec.check(monitor, np.max(np.abs(out2 - out)) / scale <= 1e-10, what="result depends on the creation order of synapses", order=order,
                  max_dev=float(np.max(np.abs(out2 - out))), type_order=[case["edges"][i][2] for i in order], **tag)
        judge_ref("ref_sim", out2, case)
        return
    if kind == "zero":
        try:
            netz = build_net(case, zero_g=True)
            outz = rec.call(monitor, simulate, netz, case, where="zero conductance")
        except Refused:
            return
        # each cell alone
        import jaxley as jx
        from jxmon import build
        off = 0
        okz = True
        worst = 0.0
        for c in case["struct"]["cells"]:
            nc = sum(c["ncomp"])
            sub = {"kind": "cell", "cells": [c]}
            cell = build.build_structure(sub)
            pp = {k2: v2[off:off + nc] for k2, v2 in case["params"].items()}
            build.set_passive(cell, pp, leak=any(g > 0 for g in case["params"]["g"]))
            cell.record("v", verbose=False)
            try:
                oc = rec.call(monitor, simulate, cell, case, where="cell alone")
            except Refused:
                off += nc
                continue
            dev = float(np.max(np.abs(oc - outz[:, off:off + nc])) / scale)
            worst = max(worst, dev)
            off += nc
        rec.check(monitor, worst <= 1e-9, what="zero-conductance synapses change a cell", max_rel_dev=worst, **tag)
        return
    if kind == "select":
        # set parameters through edge / synapse-type views with new unique values, log the intent, compare table and simulation
        rng = np.random.default_rng(case["perm_seed"])
        c2 = {**case, "edges": [[a, b, t, dict(q)] for a, b, t, q in case["edges"]]}
        ne = len(case["edges"])
        for _ in range(3):
            t = int(rng.choice(sorted(set(e[2] for e in case["edges"]))))
            rows_t = [i for i, e in enumerate(case["edges"]) if e[2] == t]
            pick = sorted(int(x) for x in rng.choice(len(rows_t), int(rng.integers(1, len(rows_t) + 1)), replace=False))
            val = float(trees.logu(rng, 1e-4, 2e-2))
            key = {0: "IonotropicSynapse_gS", 1: "TestSynapse_gC", 2: "TanhRateSynapse_gS"}[t]
            how = str(rng.choice(["type.edge", "select", "type_all", "global_edge"]))
            try:
                if how == "type.edge":
                    rec.call(monitor, lambda: getattr(net, SYN[t]).edge(pick).set(key, val), where="net.<Syn>.edge(idx).set")
                    sel = [rows_t[i] for i in pick]
                elif how == "select":
                    sel = [rows_t[i] for i in pick]
                    rec.call(monitor, lambda: net.select(edges=sel).set(key, val), where="net.select(edges).set")
                elif how == "global_edge":
                    sel = [rows_t[i] for i in pick]
                    rec.call(monitor, lambda: net.scope("global").edge(sel).set(key, val), where="net.scope(global).edge(idx).set")
                else:
                    sel = rows_t
                    rec.call(monitor, lambda: getattr(net, SYN[t]).set(key, val), where="net.<Syn>.set")
            except Refused:
                continue
            for i in sel:
                c2["edges"][i][3]["g"] = val
            tab = net.edges[key].to_numpy(dtype=float)
            want = np.array([e[3]["g"] if e[2] == t else np.nan for e in c2["edges"]])
            rec.check(monitor, np.array_equal(tab, want, equal_nan=True), what="edge-view set did not reach exactly the selected synapses", how=how,
                      selected=sel, got=tab.tolist()[:14], want=want.tolist()[:14], **tag)
        try:
            o2 = rec.call(monitor, simulate, net, case, where="simulate after edge-view set")
        except Refused:
            return
        judge_ref(monitor, o2, c2)


def classify(case, v):
    return None
