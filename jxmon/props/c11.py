"""C11 - views select exactly the described compartments, in local or global scope.

Random selection chains (generated against the pure-python view model R4 so that most chains stay
non-empty) are executed on the real module; after every step the view's node/edge label sets and its
local index columns are compared with R4; lazy indexing and iteration are compared with the method
form; finally a mutator is applied through the view and the diff of every base table must lie inside
(selected rows x touched columns).
"""
import numpy as np

from jxmon.gen import trees
from jxmon.oracles.viewmodel import VM

PID = 11
LEVELS = {"network": ["cell", "branch", "comp"], "cell": ["branch", "comp"], "branch": ["comp"]}
FORMS = ["int", "list", "range", "slice", "ndarray", "pdindex", "bool", "all", "list"]
MUTATORS = ["set", "insert", "record", "stimulate", "clamp", "add_to_group", "move", "set_edge"]
RULE = ("irregular networks (2-4 cells, 1-4 branches, 1-4 compartments per branch, 2 synapse types interleaved), cells and "
        "branches; chains of depth <=4 over cell/branch/comp/loc/edge/select/group/channel/synapse-name/scope with index "
        "forms int/list/range/slice(non-negative)/ndarray/pd.Index/bool mask/'all'; one mutator per chain. distinct = "
        "(base kind, op sequence with index forms and scopes); non-trivial = chain has >= 2 selection steps or a scope switch")
ASSUMPTIONS = [
    "R4 (jxmon/oracles/viewmodel.py): local index = dense rank within the parent among what is in view; an edge is in view iff both ends are",
    "loc(x) at an exact compartment boundary may pick either neighbour",
    "negative slice bounds and boolean masks on views whose index values are not 0..n-1 are outside the checked domain (semantics not stated)",
    "a refusal (exception) on a selection that R4 finds non-empty is reported in evidence, not judged",
]
MECHANISMS = ["jaxley.modules.base:Module._reformat_index", "jaxley.modules.base:Module._at_nodes", "jaxley.modules.base:Module._at_edges",
              "jaxley.modules.base:Module.select", "jaxley.modules.base:Module.loc", "jaxley.modules.base:Module._update_local_indices",
              "jaxley.modules.base:View._set_inds_in_view", "jaxley.modules.base:Module.__getitem__", "jaxley.modules.base:Module._iter_submodules"]
MECHANISMS_REQUIRED = ["jaxley.modules.base:Module._at_nodes", "jaxley.modules.base:View._set_inds_in_view",
                       "jaxley.modules.base:Module._update_local_indices"]
REQUIRED = {"quick": {"selection": 1000, "local_ranks": 600, "lazy_iter": 300, "write_confinement": 300},
            "thorough": {"selection": 19145, "local_ranks": 11942, "lazy_iter": 11102, "write_confinement": 7802}}


def make_world(rng, kind, st=None, nsyn=None):
    if st is None:
        st = trees.random_structure(rng, kind=kind, max_branches=4, max_cells=4, nmax=4)
    if kind == "network" and len(st["cells"]) < 2:
        st["cells"].append({"parents": [-1, 0], "ncomp": [2, 3]})
    cell, branch, comp, ncpb = [], [], [], []
    b = 0
    for ci, c in enumerate(st["cells"]):
        for n in c["ncomp"]:
            for _ in range(n):
                cell.append(ci)
                branch.append(b)
                comp.append(len(comp))
            ncpb.append(n)
            b += 1
    n = len(comp)
    syn = []
    if kind == "network":
        for _ in range(int(rng.integers(2, 9)) if nsyn is None else nsyn):
            syn.append([int(rng.integers(0, n)), int(rng.integers(0, n)), int(rng.integers(0, 2))])
    groups = {}
    for g in ["ga", "gb"][: int(rng.integers(0, 3))]:
        groups[g] = sorted(set(int(x) for x in rng.integers(0, n, int(rng.integers(1, n + 1)))))
    channels = {}
    for chn in ["HH", "K"][: int(rng.integers(0, 3))]:
        channels[chn] = sorted(set(int(x) for x in rng.integers(0, n, int(rng.integers(1, n + 1)))))
    return {"struct": st, "syn": syn, "groups": groups, "channels": channels,
            "arrays": {"cell": cell, "branch": branch, "comp": comp, "ncpb": ncpb}}


SYN_NAMES = ["IonotropicSynapse", "TestSynapse"]


def vm_of(world):
    a = world["arrays"]
    return VM(a["cell"], a["branch"], a["comp"], a["ncpb"], [s[0] for s in world["syn"]], [s[1] for s in world["syn"]],
              [SYN_NAMES[s[2]] for s in world["syn"]], groups={k: np.asarray(v) for k, v in world["groups"].items()},
              channels={k: set(v) for k, v in world["channels"].items()})


def index_values(form, payload, nbase):
    """The set of index values an index argument denotes."""
    if form == "all":
        return "all"
    if form == "slice":
        a, b, s = payload
        return list(range(nbase))[slice(a, b, s)]
    if form == "range":
        return list(range(payload[0], payload[1]))
    if form == "bool":
        return [i for i, m in enumerate(payload) if m]
    if form == "int":
        return [payload]
    return list(payload)


def gen_chain(rng, world, depth):
    vm = vm_of(world)
    kind = world["struct"]["kind"]
    nbase = len(world["arrays"]["comp"])
    ops = []
    cur = vm
    if rng.random() < 0.2 and depth > 1:
        ops.append({"op": "scope", "s": "global"})
        cur = cur.scope("global")
    for _ in range(depth):
        choices = ["level"] * 6 + ["scope"] * 2 + ["loc", "select"]
        if kind == "network":
            choices += ["edge", "synapse"]
        if world["groups"]:
            choices.append("group")
        if world["channels"]:
            choices.append("channel")
        what = str(rng.choice(choices))
        if what == "scope":
            s = "global" if cur.scope_ == "local" else "local"
            ops.append({"op": "scope", "s": s})
            cur = cur.scope(s)
            continue
        if what == "level":
            level = str(rng.choice(LEVELS[kind]))
            col = cur.col(level)
            uniq = np.unique(col)
            form = str(rng.choice(FORMS))
            if cur.scope_ == "global" and len(cur.nodes) < nbase and rng.random() < 0.4:
                form = "slice"  # global labels on a strict sub-view: a slice denotes labels, not positions in the view
            if form == "bool":
                gl = {"cell": cur.cell, "branch": cur.branch, "comp": cur.comp}[level][cur.nodes]
                if not (len(np.unique(gl)) == len(uniq) and list(uniq) == list(range(len(uniq)))):
                    form = "list"
            if form == "int":
                payload = int(rng.choice(uniq)) if rng.random() < 0.93 else int(uniq.max() + 1 + rng.integers(0, 3))
            elif form in ("list", "ndarray", "pdindex"):
                k = int(rng.integers(1, len(uniq) + 1))
                payload = [int(x) for x in rng.choice(uniq, k, replace=rng.random() < 0.2)]
                if rng.random() < 0.1:
                    payload.append(int(uniq.max() + 2))
            elif form == "range":
                a = int(rng.integers(0, uniq.max() + 1))
                payload = [a, int(a + rng.integers(1, 4))]
            elif form == "slice":
                a = int(rng.integers(0, uniq.max() + 1))
                payload = [None if rng.random() < 0.3 else a, None if rng.random() < 0.3 else int(a + rng.integers(1, 4)),
                           None if rng.random() < 0.6 else int(rng.integers(1, 3))]
            elif form == "bool":
                payload = [bool(x) for x in (rng.random(len(uniq)) < 0.6)]
                if not any(payload):
                    payload[0] = True
            else:
                payload = None
            ops.append({"op": level, "form": form, "payload": payload})
            nxt = cur.at(level, index_values(form, payload, nbase))
        elif what == "loc":
            x = float(rng.choice([0.0, 1.0, 0.5, 0.25, 1 / 3, float(rng.uniform(0, 1)), 0.75, 0.999999]))
            ops.append({"op": "loc", "x": x})
            nxt = "loc"
        elif what == "select":
            k = int(rng.integers(1, len(cur.nodes) + 1))
            rows = [int(x) for x in rng.choice(cur.nodes, k, replace=False)]
            if rng.random() < 0.5:
                rows = sorted(rows)
            ops.append({"op": "select", "nodes": rows, "edges": None})
            nxt = cur.select(nodes=rows)
        elif what == "edge":
            if len(cur.edges) == 0:
                continue
            k = int(rng.integers(1, len(cur.edges) + 1))
            es = sorted(int(x) for x in rng.choice(cur.edges, k, replace=False))
            if cur.scope_ != "global":
                ops.append({"op": "scope", "s": "global"})
                cur = cur.scope("global")
            form = str(rng.choice(["int", "list", "all", "ndarray"]))
            payload = es[0] if form == "int" else (None if form == "all" else es)
            ops.append({"op": "edge", "form": form, "payload": payload})
            nxt = cur.edge_global(index_values(form, payload, nbase))
        elif what == "synapse":
            name = SYN_NAMES[int(rng.integers(0, 2))]
            if not any(SYN_NAMES[s[2]] == name for s in world["syn"]):
                continue
            ops.append({"op": "synapse", "name": name})
            nxt = cur.synapse(name)
        elif what == "group":
            name = str(rng.choice(sorted(world["groups"])))
            ops.append({"op": "group", "name": name})
            nxt = cur.group(name)
        else:
            name = str(rng.choice(sorted(world["channels"])))
            ops.append({"op": "channel", "name": name})
            nxt = cur.channel(name)
        if nxt == "loc":
            cands = cur.loc_candidates(ops[-1]["x"])
            # continue generation from the unambiguous part only when every branch has one candidate in view
            picks = [c[1][0] for c in cands if len(c[1]) == 1 and c[1][0] in set(cur.comp[cur.nodes].tolist())]
            amb = any(len(c[1]) != 1 for c in cands)
            if amb or not picks:
                break
            cur = cur.select(nodes=[int(np.where(cur.comp == p)[0][0]) for p in picks])
            continue
        if nxt is None:
            break  # chain ends with an empty selection (the real code must refuse)
        cur = nxt
    return ops


def cases(seed, tier):
    n = 420 if tier == "quick" else 12000
    out = []
    per_world = 14 if tier == "quick" else 40
    k = 0
    while len(out) < n // per_world:
        rng = trees.rng_for(seed, PID, k)
        k += 1
        kind = ["network", "network", "network", "cell", "cell", "branch"][k % 6]
        world = make_world(rng, kind)
        chains = []
        for j in range(per_world):
            ops = gen_chain(rng, world, int(rng.integers(1, 5)))
            if not ops:
                continue
            chains.append({"ops": ops, "mutator": str(rng.choice(MUTATORS)), "mseed": int(rng.integers(0, 2**31))})
        out.append({"world": world, "chains": chains})
    return out


# ------------------------------------------------------------------ worker side
def build_world(world):
    import jaxley as jx
    from jaxley.channels import HH, K
    from jaxley.connect import connect
    from jaxley.synapses import IonotropicSynapse, TestSynapse
    from jxmon import build

    m = build.build_structure(world["struct"])
    n = len(world["arrays"]["comp"])
    # unique-value tagging: every row gets its own radius/length/v so that a misdirected write is visible
    m.set("radius", 1.0 + np.arange(n) * 0.01)
    m.set("length", 10.0 + np.arange(n) * 0.1)
    m.set("v", -70.0 - np.arange(n) * 0.1)
    for name, rows in world["channels"].items():
        m.select(nodes=np.asarray(rows)).insert({"HH": HH, "K": K}[name]())
    for name, rows in world["groups"].items():
        m.select(nodes=np.asarray(rows)).add_to_group(name)
    syn_cls = [IonotropicSynapse, TestSynapse]
    for a, b, t in world["syn"]:
        connect(m.select(nodes=[a]), m.select(nodes=[b]), syn_cls[t]())
    if world["struct"]["kind"] in ("cell", "network"):
        m.compute_xyz()
    return m


def make_index(form, payload):
    import pandas as pd
    if form == "all":
        return "all"
    if form == "int":
        return int(payload)
    if form == "list":
        return list(payload)
    if form == "range":
        return range(payload[0], payload[1])
    if form == "slice":
        return slice(*payload)
    if form == "ndarray":
        return np.asarray(payload, dtype=int)
    if form == "pdindex":
        return pd.Index(payload)
    if form == "bool":
        return np.asarray(payload, dtype=bool)
    raise ValueError(form)


def apply_op(rv, vm, op, nbase):
    """-> (real view, model view or None or 'loc')"""
    o = op["op"]
    if o == "scope":
        return rv.scope(op["s"]), vm.scope(op["s"])
    if o in ("cell", "branch", "comp"):
        return getattr(rv, o)(make_index(op["form"], op["payload"])), vm.at(o, index_values(op["form"], op["payload"], nbase))
    if o == "loc":
        return rv.loc(op["x"]), "loc"
    if o == "select":
        return rv.select(nodes=np.asarray(op["nodes"])), vm.select(nodes=op["nodes"])
    if o == "edge":
        return rv.edge(make_index(op["form"], op["payload"])), vm.edge_global(index_values(op["form"], op["payload"], nbase))
    if o == "synapse":
        return getattr(rv, op["name"]), vm.synapse(op["name"])
    if o == "group":
        return getattr(rv, op["name"]), vm.group(op["name"])
    if o == "channel":
        return getattr(rv, op["name"]), vm.channel(op["name"])
    raise ValueError(o)


def opsig(ops):
    return ">".join(f"{o['op']}:{o.get('form', o.get('s', ''))}" for o in ops)


def check_view(rec, rv, vm, ops, kind):
    got = rv.nodes.index.to_numpy()
    tag = dict(chain=ops, kind=kind)
    ok = set(got.tolist()) == set(vm.nodes.tolist()) and len(got) == len(set(got.tolist()))
    rec.check("selection", ok, what="node rows in view", got=sorted(got.tolist())[:30], want=sorted(vm.nodes.tolist())[:30], **tag)
    if "global_edge_index" in rv.edges.columns and len(vm.pre):
        ge = rv.edges.index.to_numpy()
        rec.check("selection", set(ge.tolist()) == set(vm.edges.tolist()), what="edge rows in view", got=sorted(ge.tolist()),
                  want=sorted(vm.edges.tolist()), **tag)
    if not ok:
        return False
    # local index columns = dense ranks within each parent (self-consistency, model-free)
    nd = rv.nodes
    vmo = VM(vm.cell, vm.branch, vm.comp, vm.ncomp_per_branch, nodes=nd.index.to_numpy())
    lc, lb, lk = vmo.local_cols()
    good = (np.array_equal(nd["local_cell_index"].to_numpy(), lc) and np.array_equal(nd["local_branch_index"].to_numpy(), lb)
            and np.array_equal(nd["local_comp_index"].to_numpy(), lk)
            and np.array_equal(nd["global_comp_index"].to_numpy(), vm.comp[nd.index.to_numpy()])
            and np.array_equal(nd["global_branch_index"].to_numpy(), vm.branch[nd.index.to_numpy()])
            and np.array_equal(nd["global_cell_index"].to_numpy(), vm.cell[nd.index.to_numpy()]))
    rec.check("local_ranks", good, what="local_* columns are not the dense ranks within each parent",
              local_comp=nd["local_comp_index"].tolist()[:20], want=lk.tolist()[:20], **tag)
    return True


def run_case(case, rec):
    from jxmon.core import Refused

    world = case["world"]
    kind = world["struct"]["kind"]
    nbase = len(world["arrays"]["comp"])
    m = rec.call("build", build_world, world)
    vm0 = vm_of(world)
    for ch in case["chains"]:
        rv, vm = m, vm0
        ops_done = []
        alive = True
        for op in ch["ops"]:
            ops_done.append(op)
            try:
                nrv, nvm = apply_op(rv, vm, op, nbase)
                refused = None
            except ValueError as e:
                refused, nrv = e, None
                try:
                    nvm = apply_op_model_only(vm, op, nbase)
                except Exception:
                    nvm = "unknown"
            except (AssertionError, KeyError, IndexError, TypeError) as e:
                rec.refused("selection", e, where=opsig(ops_done))
                alive = False
                break
            if refused is not None:
                if op["op"] == "loc":
                    inview = set(vm.comp[vm.nodes].tolist())
                    must = any(all(c in inview for c in cs) for b, cs in vm.loc_candidates(op["x"]))
                    nvm = "unknown" if must else None
                if nvm is None and "Nothing in view" in str(refused):
                    rec.held("selection")  # refusal exactly when the denoted selection is empty
                elif nvm is None:
                    rec.refused("selection", refused, where="empty selection")
                else:
                    rec.refused("selection", refused, where="NON-EMPTY selection: " + opsig(ops_done))
                alive = False
                break
            if nvm is None:
                rec.violated("selection", what="view returned although the chain denotes nothing", chain=ops_done, kind=kind,
                             got=sorted(nrv.nodes.index.tolist())[:60], prev=sorted(vm.nodes.tolist())[:60], last_op=op["op"])
                alive = False
                break
            if nvm == "loc":
                cands = vm.loc_candidates(op["x"])
                inview = set(vm.comp[vm.nodes].tolist())
                got = set(nrv.nodes["global_comp_index"].tolist())
                okl = True
                for b, cs in cands:
                    gb = {c for c in got if vm.branch[np.where(vm.comp == c)[0][0]] == b}
                    allowed = [c for c in cs if c in inview]
                    # at an exact boundary either neighbour may be meant; if the one meant is not in view, nothing is selected
                    okl = okl and gb <= set(allowed) and len(gb) <= 1 and (len(gb) == 1 or len(allowed) < len(cs))
                rec.check("selection", okl, what="loc picked a compartment whose interval does not contain x", x=op["x"],
                          got=sorted(got), candidates=cands, chain=ops_done, kind=kind)
                if not okl:
                    alive = False
                    break
                nvm = vm.select(nodes=[int(np.where(vm.comp == c)[0][0]) for c in sorted(got)])
                nvm = nvm.scope(vm.scope_)
            rv, vm = nrv, nvm
            if not check_view(rec, rv, vm, ops_done, kind):
                alive = False
                break
        rec.sig(f"{kind}|{opsig(ch['ops'])}", nontrivial=len([o for o in ch["ops"] if o["op"] != "scope"]) >= 2 or any(o["op"] == "scope" for o in ch["ops"]))
        if not alive or rv is m:
            continue
        _lazy_iter(rec, rv, vm, ch["ops"], kind)
        try:
            _mutate(rec, m, rv, vm, ch, world)
        except Refused:
            pass
    # lazy indexing on the module itself
    _lazy_module(rec, m, vm0, kind)


def apply_op_model_only(vm, op, nbase):
    o = op["op"]
    if o in ("cell", "branch", "comp"):
        return vm.at(o, index_values(op["form"], op["payload"], nbase))
    if o == "select":
        return vm.select(nodes=op["nodes"])
    if o == "edge":
        return vm.edge_global(index_values(op["form"], op["payload"], nbase))
    if o == "synapse":
        return vm.synapse(op["name"])
    if o == "group":
        return vm.group(op["name"])
    if o == "channel":
        return vm.channel(op["name"])
    return "unknown"


def _lazy_iter(rec, rv, vm, ops, kind):
    """iteration (cells/branches/comps) over the final view agrees with the method form"""
    for level, attr in (("cell", "cells"), ("branch", "branches"), ("comp", "comps")):
        if level not in LEVELS[kind]:
            continue
        try:
            subs = list(getattr(rv, attr))
        except Exception as e:  # noqa: BLE001
            rec.refused("lazy_iter", e, where=f"iterating .{attr}")
            continue
        col = vm.col(level)
        want = [sorted(vm.nodes[col == u].tolist()) for u in dict.fromkeys(col.tolist())]
        got = [sorted(s.nodes.index.tolist()) for s in subs]
        rec.check("lazy_iter", sorted(got) == sorted(want), what=f"iteration over .{attr}", got=got[:8], want=want[:8], chain=ops, kind=kind)


def _lazy_module(rec, m, vm0, kind):
    levels = LEVELS[kind]
    rng = np.random.default_rng(len(vm0.nodes))
    for _ in range(6):
        depth = int(rng.integers(1, len(levels) + 1))
        v, idx = vm0, []
        for lv in levels[:depth]:
            u = np.unique(v.col(lv))
            i = int(rng.choice(u))
            idx.append(i)
            v = v.at(lv, [i])
        try:
            got = m[tuple(idx)] if len(idx) > 1 else m[idx[0]]
            meth = m
            for lv, i in zip(levels, idx):
                meth = getattr(meth, lv)(i)
        except Exception as e:  # noqa: BLE001
            rec.refused("lazy_iter", e, where="module[...]")
            continue
        rec.check("lazy_iter", sorted(got.nodes.index.tolist()) == sorted(v.nodes.tolist()) == sorted(meth.nodes.index.tolist()),
                  what="lazy [] indexing differs from the method form / model", idx=idx, got=sorted(got.nodes.index.tolist()),
                  want=sorted(v.nodes.tolist()), kind=kind)
    # __iter__ at the top level
    try:
        subs = list(m)
        col = vm0.col(levels[0])
        want = [sorted(vm0.nodes[col == u].tolist()) for u in dict.fromkeys(col.tolist())]
        rec.check("lazy_iter", sorted(sorted(s.nodes.index.tolist()) for s in subs) == sorted(want), what="__iter__ of the module", kind=kind)
    except Exception as e:  # noqa: BLE001
        rec.refused("lazy_iter", e, where="iter(module)")


def snapshot(m):
    import copy
    return {
        "nodes": m.nodes.copy(deep=True), "edges": m.edges.copy(deep=True), "recordings": m.recordings.copy(deep=True),
        "externals": {k: np.array(v) for k, v in m.externals.items()},
        "external_inds": {k: np.array(v) for k, v in m.external_inds.items()},
        "groups": {k: np.array(v) for k, v in m.groups.items()},
        "xyzr": [np.array(a) for a in m.xyzr], "ntrain": len(m.trainable_params),
        "channels": [c._name for c in m.channels],
    }


def frame_diff(before, after, allowed_cols=()):
    """-> (set of changed row labels per column for common columns, new columns, dropped columns)"""
    import pandas as pd
    new_cols = [c for c in after.columns if c not in before.columns]
    dropped = [c for c in before.columns if c not in after.columns]
    changed = {}
    if list(before.index) != list(after.index):
        return None, new_cols, dropped
    for c in before.columns:
        if c not in after.columns:
            continue
        b, a = before[c].to_numpy(), after[c].to_numpy()
        neq = np.array([not (x == y or (pd.isna(x) and pd.isna(y))) for x, y in zip(b, a)], dtype=bool)
        if neq.any():
            changed[c] = set(before.index[neq].tolist())
    return changed, new_cols, dropped


def _mutate(rec, m, rv, vm, ch, world):
    import jax.numpy as jnp
    from jaxley.channels import Leak, Na
    rng = np.random.default_rng(ch["mseed"])
    mut = ch["mutator"]
    rows = set(vm.nodes.tolist())
    erows = set(vm.edges.tolist())
    before = snapshot(m)
    tag = dict(chain=ch["ops"], mutator=mut, kind=world["struct"]["kind"])
    unchanged = {"edges", "recordings", "externals", "groups", "xyzr", "nodes"}
    allowed_node = {}
    if mut == "set":
        key = str(rng.choice(["radius", "length", "v", "capacitance", "axial_resistivity"] +
                             (["HH_gNa"] if "HH" in world["channels"] else []) + (["eK"] if "K" in world["channels"] else [])))
        val = float(rng.uniform(1, 2)) * 1.2345 + 3.0
        rec.call("write_confinement", rv.set, key, val, where="set")
        allowed_node = {key: rows}
        after = snapshot(m)
        ch_nodes, _, _ = frame_diff(before["nodes"], after["nodes"])
        col = after["nodes"][key]
        want_rows = {r for r in rows if not np.isnan(before["nodes"].loc[r, key])}
        ok_val = all(col.loc[r] == val for r in want_rows)
        rec.check("write_confinement", ok_val and ch_nodes is not None and ch_nodes.get(key, set()) == want_rows, what="set did not write exactly the selected rows",
                  key=key, changed=sorted(ch_nodes.get(key, set()))[:30] if ch_nodes is not None else None, want=sorted(want_rows)[:30], **tag)
    elif mut == "set_edge":
        if not erows or "IonotropicSynapse_gS" not in m.edges.columns:
            return
        key = "IonotropicSynapse_gS"
        val = float(rng.uniform(0.1, 0.2))
        rec.call("write_confinement", rv.set, key, val, where="set(edge key)")
        after = snapshot(m)
        ch_e, _, _ = frame_diff(before["edges"], after["edges"])
        want_rows = {e for e in erows if not np.isnan(before["edges"].loc[e, key])}
        rec.check("write_confinement", ch_e is not None and set(ch_e) <= {key} and ch_e.get(key, set()) == want_rows,
                  what="set(edge key) did not write exactly the selected edges", changed={k: sorted(v) for k, v in (ch_e or {}).items()},
                  want=sorted(want_rows), **tag)
        unchanged -= {"edges"}
        allowed_node = {}
    elif mut == "insert":
        chan = Leak() if rng.random() < 0.5 else Na()
        rec.call("write_confinement", rv.insert, chan, where="insert")
        after = snapshot(m)
        cols = [chan._name] + list(chan.channel_params) + list(chan.channel_states)
        allowed_node = {c: rows for c in cols}
        flag = after["nodes"][chan._name]
        had = set() if chan._name not in before["nodes"].columns else set(before["nodes"].index[before["nodes"][chan._name].astype(bool)].tolist())
        okf = all(bool(flag.loc[r]) for r in rows | had) and all(not bool(flag.loc[r]) for r in set(after["nodes"].index) - rows - had)
        okp = all(after["nodes"].loc[r, k] == v for r in rows for k, v in {**chan.channel_params, **chan.channel_states}.items()
                  if k not in before["nodes"].columns)
        rec.check("write_confinement", okf and okp, what="insert: channel flag/parameters not exactly on the selected rows", channel=chan._name, **tag)
    elif mut == "record":
        rec.call("write_confinement", rv.record, "v", verbose=False, where="record")
        after = snapshot(m)
        r0 = before["recordings"]
        old = set() if r0.empty else set(zip(r0["rec_index"], r0["state"]))
        new = after["recordings"]
        got = list(zip(new["rec_index"], new["state"]))
        want_new = [(r, "v") for r in rv.nodes.index.tolist() if (r, "v") not in old]
        rec.check("write_confinement", got[len(old):] == want_new and set(got[: len(old)]) == old, what="record: appended rows are not the selected compartments in order",
                  got=got[len(old):][:20], want=want_new[:20], **tag)
        unchanged -= {"recordings"}
    elif mut in ("stimulate", "clamp"):
        key = "i" if mut == "stimulate" else "v"
        nrow = len(rows)
        arr = jnp.asarray(rng.uniform(0, 1, (nrow, 3)))
        if mut == "stimulate":
            rec.call("write_confinement", rv.stimulate, arr, verbose=False, where="stimulate")
        else:
            rec.call("write_confinement", rv.clamp, "v", arr, verbose=False, where="clamp")
        after = snapshot(m)
        b_inds = before["external_inds"].get(key, np.zeros(0, int))
        a_inds = after["external_inds"].get(key, np.zeros(0, int))
        a_vals = after["externals"].get(key, np.zeros((0, 3)))
        ok = (list(a_inds[: len(b_inds)]) == list(b_inds) and list(a_inds[len(b_inds):]) == rv.nodes.index.tolist()
              and np.array_equal(a_vals[len(b_inds):], np.asarray(arr)))
        if key in before["externals"] and ok:
            ok = np.array_equal(a_vals[: len(b_inds)], before["externals"][key])
        others = all(np.array_equal(after["externals"][k], v) and np.array_equal(after["external_inds"][k], before["external_inds"][k])
                     for k, v in before["externals"].items() if k != key)
        rec.check("write_confinement", ok and others, what=f"{mut}: inputs not attached to exactly the selected compartments (in order)",
                  inds_after=a_inds.tolist()[-12:], want_tail=rv.nodes.index.tolist()[-12:], **tag)
        unchanged -= {"externals"}
    elif mut == "add_to_group":
        name = str(rng.choice(["ga", "gnew"]))
        rec.call("write_confinement", rv.add_to_group, name, where="add_to_group")
        after = snapshot(m)
        want = set(before["groups"].get(name, np.zeros(0, int)).tolist()) | rows
        ok = set(after["groups"][name].tolist()) == want and all(
            np.array_equal(after["groups"][k], v) for k, v in before["groups"].items() if k != name)
        rec.check("write_confinement", ok, what="add_to_group: membership is not previous U selection", got=sorted(after["groups"][name].tolist())[:30],
                  want=sorted(want)[:30], **tag)
        vm.root.groups[name] = np.asarray(sorted(want), dtype=int)  # keep the model in step with the history
        unchanged -= {"groups"}
    elif mut == "move":
        if world["struct"]["kind"] == "branch":
            return
        rec.call("write_confinement", rv.move, 10.0, -3.0, 2.0, where="move")
        after = snapshot(m)
        br = set(vm.branch[vm.nodes].tolist())
        ok = True
        for b, (x0, x1) in enumerate(zip(before["xyzr"], after["xyzr"])):
            want = x0.copy()
            if b in br:
                want[:, :3] += np.array([10.0, -3.0, 2.0])
            ok = ok and np.allclose(x1, want, equal_nan=True, rtol=0, atol=1e-9)
        rec.check("write_confinement", ok, what="move: coordinates of branches outside the view changed (or inside did not)", **tag)
        unchanged -= {"xyzr"}
    after = snapshot(m)
    # everything else must be untouched
    ch_nodes, new_cols, dropped = frame_diff(before["nodes"], after["nodes"])
    bad = {}
    if ch_nodes is None:
        bad["nodes.index"] = "changed"
    else:
        for c, rws in ch_nodes.items():
            if c == "controlled_by_param":
                continue
            extra = rws - allowed_node.get(c, set())
            if extra:
                bad[f"nodes.{c}"] = sorted(extra)[:12]
    for c in new_cols:
        if c not in allowed_node:
            bad[f"nodes new column {c}"] = True
    if dropped:
        bad["nodes dropped"] = dropped
    if "edges" in unchanged:
        ch_e, ne, de = frame_diff(before["edges"], after["edges"])
        if ch_e is None or any(k != "controlled_by_param" for k in ch_e) or ne or de:
            bad["edges"] = {k: sorted(v)[:8] for k, v in (ch_e or {}).items()}
    if "recordings" in unchanged and not before["recordings"].equals(after["recordings"]):
        bad["recordings"] = True
    if "externals" in unchanged:
        if set(before["externals"]) != set(after["externals"]) or any(not np.array_equal(after["externals"][k], v) for k, v in before["externals"].items()):
            bad["externals"] = True
    if "groups" in unchanged:
        if set(before["groups"]) != set(after["groups"]) or any(not np.array_equal(after["groups"][k], v) for k, v in before["groups"].items()):
            bad["groups"] = True
    if "xyzr" in unchanged and any(not np.array_equal(a, b, equal_nan=True) for a, b in zip(before["xyzr"], after["xyzr"])):
        bad["xyzr"] = True
    rec.check("write_confinement", not bad, what="tables changed outside (selected rows x touched columns)", outside=bad, **tag)
    # restore inputs/recordings so that histories stay small
    if mut in ("stimulate", "clamp") and sum(len(np.asarray(v)) for v in m.external_inds.values()) > 8:
        m.delete_stimuli()
        m.delete_clamps()
    if mut == "record":
        m.delete_recordings()


def classify(case, v):
    d = v.get("detail", {})
    # F20: channel-/synapse-name access on a view that holds no such member returns the whole view instead of nothing
    if d.get("what") == "view returned although the chain denotes nothing" and d.get("last_op") in ("channel", "synapse") \
            and d.get("got") == d.get("prev"):
        return "F20"
    return None
