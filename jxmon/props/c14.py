"""C14 - init_states puts every mechanism at its voltage-dependent steady state.

Events: gate columns of .nodes after init_states(); a further update_states at the same voltage.
Oracles: fixed point of the mechanism's own update (dt in {0.025, 1, 1000}); R2's x_inf at the
compartment's own voltage and parameters; rows without the channel (and all other columns) untouched.
"""
import numpy as np

from jxmon.gen import trees

PID = 14
CHANNELS = ["HH", "Na", "K", "Km", "CaL", "CaT", "Leak"]
RULE = ("cells/branches/networks with 1-5 branches of 1-4 compartments; 1-5 channel insertions per case on random "
        "views (whole module, branch subsets, compartment subsets), instances renamed at random, several channels per "
        "compartment; per-compartment voltages in [-120,60] incl. the singular voltages; per-compartment vt, taumax, "
        "vx. distinct = (channel, renamed?, partial/total insertion, voltage class); non-trivial = channel has gates")
ASSUMPTIONS = ["R2 steady states (self-tested against NEURON for HH)", "fixed point judged with the channel's own update_states called eagerly"]
MECHANISMS = ["jaxley.modules.base:Module.init_states", "jaxley.channels.hh:HH.init_state",
              "jaxley.channels.pospischil:Km.init_state", "jaxley.channels.pospischil:CaT.init_state",
              "jaxley.channels.pospischil:Na.init_state", "jaxley.channels.pospischil:K.init_state",
              "jaxley.channels.pospischil:CaL.init_state"]
MECHANISMS_REQUIRED = ["jaxley.modules.base:Module.init_states"]
REQUIRED = {"quick": {"fixed_point": 300, "r2_inf": 300, "rows_written": 60},
            "thorough": {"fixed_point": 23097, "r2_inf": 7699, "rows_written": 14523}}


def cases(seed, tier):
    n = 64 if tier == "quick" else 1200
    out = []
    for k in range(n):
        rng = trees.rng_for(seed, PID, k)
        kind = ["cell", "cell", "branch", "network", "comp"][k % 5]
        st = trees.random_structure(rng, kind=kind, max_branches=5, max_cells=2, nmax=4)
        nc = trees.total_comps(st)
        nins = int(rng.integers(1, 6))
        ins = []
        for j in range(nins):
            ch = CHANNELS[int(rng.integers(0, len(CHANNELS)))] if j > 0 else CHANNELS[k % len(CHANNELS)]
            rename = None if rng.random() < 0.6 else ["a", "x" + ch, ch + "2", "g"][int(rng.integers(0, 4))]
            if rng.random() < 0.4:
                rows = list(range(nc))
            else:
                rows = sorted(set(int(x) for x in rng.integers(0, nc, int(rng.integers(1, nc + 1)))))
            ins.append({"ch": ch, "rename": rename, "rows": rows})
        vmode = ["generic", "singular", "generic", "mixed"][k % 4]
        vt = float(rng.uniform(-70, -45))
        v = rng.uniform(-120, 60, nc)
        if vmode != "generic":
            sp = np.array([-40.0, -55.0, vt + 13, vt + 40, vt + 15, -27.0, -35.0, -81.0])
            m = rng.random(nc) < (1.0 if vmode == "singular" else 0.4)
            v[m] = sp[rng.integers(0, len(sp), m.sum())]
        bottom_up = None
        if k % 6 == 5:
            # channels inserted into compartments BEFORE they are assembled into branches / cells / a network (several channels sharing
            # one current name, e.g. K+Km -> i_K, CaL+CaT -> i_Ca): every one of them must still be initialised
            from jxmon.props import c12
            bottom_up = [c12.gen_cell(rng, 3) for _ in range(int(rng.integers(1, 3)))]
            nc = sum(len(b) for c in bottom_up for b in c["branches"])
            v = rng.uniform(-120, 60, nc)
        out.append({"struct": st, "ins": ins, "v": [float(x) for x in v], "vt_scalar": vt, "bottom_up": bottom_up,
                    "vt": [float(x) for x in (np.full(nc, vt) if k % 3 else rng.uniform(-70, -45, nc))],
                    "taumax": [float(x) for x in trees.logu(rng, 100, 1e4, nc)],
                    "vx": [float(x) for x in rng.uniform(-5, 10, nc)], "vmode": vmode,
                    "delta_t": [0.025, 1.0, 0.1][k % 3]})
    return out


def run_case(case, rec):
    import jax.numpy as jnp
    import mpmath as mp
    import pandas as pd
    import jaxley.channels as chmod
    from jxmon import build
    from jxmon.core import Refused
    from jxmon.oracles import kinetics as R2

    st = case["struct"]
    nc = trees.total_comps(st)
    objs = []
    seen = set()
    if case.get("bottom_up"):
        import jaxley as jx
        from jxmon.props import c12
        cells = [rec.call("build", c12.build_cell, c) for c in case["bottom_up"]]
        m = cells[0] if len(cells) == 1 else rec.call("build", jx.Network, cells)
        nc = len(m.nodes)
        for name in c12.CH:
            if name in m.nodes.columns and m.nodes[name].any():
                objs.append((getattr(chmod, name)(), {"ch": name, "rename": None, "rows": [int(i) for i in np.where(m.nodes[name].to_numpy())[0]]}))
        case = dict(case, ins=[])
    else:
        m = rec.call("build", build.build_structure, st)
    for ins in case["ins"]:
        obj = getattr(chmod, ins["ch"])()
        if ins["rename"]:
            obj.change_name(ins["rename"])
        if obj._name in seen:
            continue  # same name twice is a re-insertion, not a second mechanism
        seen.add(obj._name)
        m.select(nodes=np.asarray(ins["rows"])).insert(obj)
        objs.append((obj, ins))
    if case.get("history", True):
        # a previous init_states()/integrate() on the same module, before voltages and parameters are edited: the second
        # init_states must use the edited tables (no stale derived arrays)
        try:
            m.init_states(delta_t=case["delta_t"])
        except Exception as e:  # noqa: BLE001
            rec.refused("rows_written", e, where="first init_states")
    m.set("v", np.asarray(case["v"]))
    for key, vals in (("vt", case["vt"]), ("taumax", case["taumax"]), ("vx", case["vx"])):
        for col in list(m.nodes.columns):
            if col == key or col.endswith("_" + key):
                for i in range(nc):
                    m.select(nodes=[i]).set(col, float(vals[i]))
    before = m.nodes.copy()
    try:
        rec.call("rows_written", m.init_states, delta_t=case["delta_t"], where="init_states")
    except Refused:
        return
    after = m.nodes
    # ---- rows_written: only gate columns of rows that contain the channel may change
    allowed = {}
    for obj, ins in objs:
        for key in obj.channel_states:
            allowed.setdefault(key, set()).update(ins["rows"])
    ok_cols = list(before.columns) == list(after.columns) and len(before) == len(after)
    rec.check("rows_written", ok_cols, what="columns/rows changed", before=list(before.columns), after=list(after.columns))
    if ok_cols:
        for col in before.columns:
            b, a = before[col].to_numpy(), after[col].to_numpy()
            try:
                same = (b == a) | (pd.isna(b) & pd.isna(a))
            except Exception:
                same = np.array([x is y or x == y for x, y in zip(b, a)])
            changed = set(np.where(~np.asarray(same, dtype=bool))[0].tolist())
            extra = changed - allowed.get(col, set())
            rec.check("rows_written", not extra, what="init_states wrote outside (channel rows x gate columns)", column=col,
                      rows=sorted(extra)[:8])
    # ---- per channel and gate: fixed point and R2 steady state
    for obj, ins in objs:
        p = obj._name
        cls = type(obj).__name__
        rows = np.asarray(sorted(set(ins["rows"])))
        if not obj.channel_states:
            continue
        spec = R2.MECH[cls]
        params = {k: jnp.asarray(after.loc[rows, k].to_numpy(dtype=float)) for k in obj.channel_params}
        states = {k: jnp.asarray(after.loc[rows, k].to_numpy(dtype=float)) for k in obj.channel_states}
        v = np.asarray(case["v"])[rows]
        sing = np.array([-40.0, -55.0, -27.0, -35.0, -81.0])
        vclass = "singular" if np.any(np.abs(v[:, None] - sing[None, :]) < 1e-12) or case["vmode"] != "generic" else "generic"
        partial = len(rows) < nc
        for key in obj.channel_states:
            got = np.asarray(states[key], dtype=np.float64)
            if not np.all(np.isfinite(got)):
                i = int(np.argmax(~np.isfinite(got)))
                rec.violated("r2_inf", mech=cls, gate=key, what="non-finite initial state", v=float(v[i]), got=float(got[i]))
                continue
            gfn = R2.fmt(spec["gates"], p)[key]
            bad = []
            for i in range(len(rows)):
                P = {k: float(np.asarray(params[k])[i]) for k in params}
                w = gfn(float(v[i]), P, p)["inf"]
                if abs(mp.mpf(float(got[i])) - w) > mp.mpf("1e-8"):
                    bad.append((i, float(got[i]), float(w)))
            rec.held("r2_inf", len(rows) - len(bad))
            if bad:
                i, g, w = bad[0]
                rec._c("r2_inf", "violated", len(bad) - 1)
                rec.violated("r2_inf", mech=cls, gate=key, v=float(v[i]), got=g, want=w, n_bad=len(bad), renamed=bool(ins["rename"]))
            rec.sig(f"{cls}|{'renamed' if ins['rename'] else 'orig'}|{'partial' if partial else 'total'}|{vclass}")
        for dt in (0.025, 1.0, 1000.0):
            try:
                new = rec.call("fixed_point", obj.update_states, states, dt, jnp.asarray(v), params, where=f"{cls}.update_states")
            except Refused:
                continue
            for key, val in new.items():
                d = np.abs(np.asarray(val, dtype=np.float64) - np.asarray(states[key], dtype=np.float64))
                d = np.where(np.isfinite(d), d, np.inf)
                nbad = int((d > 1e-12).sum())
                rec.held("fixed_point", len(rows) - nbad)
                if nbad:
                    i = int(np.argmax(d))
                    rec._c("fixed_point", "violated", nbad - 1)
                    rec.violated("fixed_point", mech=cls, gate=key, dt=dt, v=float(v[i]), init=float(np.asarray(states[key])[i]),
                                 after_update=float(np.asarray(val)[i]), n_bad=nbad, renamed=bool(ins["rename"]))


def classify(case, v):
    d = v.get("detail", {})
    if d.get("mech") in ("Km", "CaT") and v["monitor"] in ("fixed_point", "r2_inf"):
        return "F3"
    return None
