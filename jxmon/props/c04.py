"""C04 - built-in mechanisms implement their published kinetics and currents.

Return values of the real rate functions, compute_current, update_states (synapses) and the
parameter/state dictionaries are compared with R2 (mpmath, 50 digits, written from the papers).
Renaming: outputs of a renamed instance are bit-identical to the original with keys re-prefixed.
"""
import numpy as np

from jxmon.gen import trees
from jxmon.props import c03

PID = 4
CHANNELS = ["HH", "Na", "K", "Km", "CaL", "CaT", "Leak"]
SYNAPSES = ["IonotropicSynapse", "TanhRateSynapse", "TestSynapse"]
NV = 96
RULE = ("per case one mechanism and one voltage class (singular | <=8 ulp | near | generic in [-150,100] | clip "
        "thresholds), 96 voltages with random gate states in [0,1], log-uniform conductances, reversal/shift "
        "parameters over physiological ranges; evaluations = scalar comparisons with the mpmath oracle; distinct = "
        "(mechanism, quantity, voltage class); rename cases: random prefixes incl. substrings of parameter names")
ASSUMPTIONS = [
    "R2 (jxmon/oracles/kinetics.py) transcribes HH 1952 (NEURON hh.mod convention, 6.3 C), Pospischil 2008 and "
    "Abbott-Marder 1998; its HH part is self-tested against NEURON's compiled hh mechanism in setup.sh",
    "rates: relative 1e-9 or absolute 1e-7/ms (save_exp clips exponents at 20, which changes rates that are <1e-7); "
    "steady states absolute 1e-8; time constants relative 1e-8; currents relative 1e-10",
    "documented default parameters = the table pinned in R2.MECH / R2.SYN",
]
MECHANISMS = ["jaxley.channels.hh:HH.m_gate", "jaxley.channels.hh:HH.h_gate", "jaxley.channels.hh:HH.n_gate",
              "jaxley.channels.pospischil:Na.m_gate", "jaxley.channels.pospischil:Na.h_gate",
              "jaxley.channels.pospischil:K.n_gate", "jaxley.channels.pospischil:Km.p_gate",
              "jaxley.channels.pospischil:CaL.q_gate", "jaxley.channels.pospischil:CaL.r_gate",
              "jaxley.channels.pospischil:CaT.u_gate", "jaxley.channels.channel:Channel.change_name",
              "jaxley.synapses.synapse:Synapse.change_name"]
MECHANISMS_REQUIRED = ["jaxley.channels.hh:HH.m_gate", "jaxley.channels.pospischil:CaT.u_gate",
                       "jaxley.channels.channel:Channel.change_name"]
REQUIRED = {"quick": {"rates": 5000, "currents": 2000, "defaults": 10, "rename": 100},
            "thorough": {"rates": 275338, "currents": 57600, "defaults": 14, "rename": 1282}}

PREFIXES = ["a", "g", "e", "HH", "Na", "K", "Km", "vt", "eNa", "gNa", "x_y", "Leak", "CaT_vx", "i", "m", "_", "HH_gNa", "s"]


def cases(seed, tier):
    reps = 2 if tier == "quick" else 30
    out, k = [], 0
    for rep in range(reps):
        for mech in CHANNELS + SYNAPSES:
            for vclass in c03.VCLASSES:
                k += 1
                out.append({"kind": "values", "mech": mech, "vclass": vclass, "k": k})
    for mech in CHANNELS + SYNAPSES:
        out.append({"kind": "defaults", "mech": mech, "k": 0})
    nren = 4 if tier == "quick" else 40
    for mech in CHANNELS + SYNAPSES:
        for j in range(nren):
            rng = trees.rng_for(seed, PID, 5000 + k)
            k += 1
            chain = [str(PREFIXES[int(i)]) for i in rng.integers(0, len(PREFIXES), int(rng.integers(1, 4)))]
            if j == 0:
                chain = [mech]  # rename to its own name
            out.append({"kind": "rename", "mech": mech, "chain": chain, "k": k})
    return out


def _cmp(rec, monitor, got, want_mp, mode, **tag):
    """mode: rate (rel 1e-9 | abs 1e-7), inf (abs 1e-8), tau (rel 1e-8), cur (rel 1e-10 + abs floor)."""
    import mpmath as mp
    got = np.asarray(got, dtype=np.float64)
    bad = []
    for i, (g, w) in enumerate(zip(got.ravel(), want_mp)):
        if not np.isfinite(g):
            bad.append((i, float(g), float(w)))
            continue
        err = abs(mp.mpf(float(g)) - w)
        if mode == "rate":
            ok = err <= mp.mpf("1e-9") * abs(w) or err <= mp.mpf("1e-7")
        elif mode == "inf":
            ok = err <= mp.mpf("1e-8")
        elif mode == "tau":
            ok = err <= mp.mpf("1e-8") * abs(w)
        else:
            ok = err <= mp.mpf("1e-10") * abs(w) + mp.mpf(tag.get("floor", 1e-15))
        if not ok:
            bad.append((i, float(g), float(w)))
    rec.held(monitor, got.size - len(bad))
    return bad


def run_case(case, rec):
    import jax.numpy as jnp
    import mpmath as mp
    import jaxley.channels as ch
    import jaxley.synapses as sy
    from jxmon.oracles import kinetics as R2

    mech = case["mech"]
    is_syn = mech in SYNAPSES
    mk = lambda: (getattr(sy, mech) if is_syn else getattr(ch, mech))()
    spec = (R2.SYN if is_syn else R2.MECH)[mech]

    if case["kind"] == "defaults":
        obj = mk()
        p = obj._name
        got_p = dict(obj.synapse_params if is_syn else obj.channel_params)
        got_s = dict(obj.synapse_states if is_syn else obj.channel_states)
        rec.check("defaults", got_p == R2.fmt(spec["params"], p), mech=mech, what="parameter table", got=got_p,
                  want=R2.fmt(spec["params"], p))
        rec.check("defaults", got_s == R2.fmt(spec["states"], p), mech=mech, what="state table", got=got_s,
                  want=R2.fmt(spec["states"], p))
        if not is_syn:
            rec.check("defaults", obj.current_name == spec["current_name"].format(p=p), mech=mech, what="current name",
                      got=obj.current_name)
        rec.check("defaults", p == mech, mech=mech, what="default name", got=p)
        rec.sig(f"defaults|{mech}")
        return

    if case["kind"] == "rename":
        return _rename(case, rec, mk, is_syn)

    rng = trees.rng_for(case["k"], PID, 1)
    vt = float(rng.uniform(-70, -45))
    v = np.clip(c03.make_voltages(rng, mech, case["vclass"], vt, NV), -150.0, 100.0)
    obj = mk()
    p = obj._name
    table = obj.synapse_params if is_syn else obj.channel_params
    stable = obj.synapse_states if is_syn else obj.channel_states
    params = {}
    for key, default in table.items():
        if key == "vt":
            val = np.full(NV, vt)
        elif key.endswith("_taumax"):
            val = trees.logu(rng, 100, 1e4, NV)
        elif key.endswith("_vx"):
            val = rng.uniform(-5, 10, NV)
        elif key.endswith("_k_minus"):
            val = trees.logu(rng, 1e-3, 1.0, NV)
        elif "_g" in key:
            val = trees.logu(rng, 1e-6, 1.0, NV)
        elif key.endswith("_slope"):
            val = trees.logu(rng, 1e-2, 2.0, NV)
        elif key.endswith("_x_offset"):
            val = rng.uniform(-90, -20, NV)
        else:  # reversal potentials
            val = float(default) + rng.uniform(-20, 20, NV)
        params[key] = val
    states = {key: c03.make_states(rng, NV) for key in stable}
    jp = {k2: jnp.asarray(a) for k2, a in params.items()}
    js = {k2: jnp.asarray(a) for k2, a in states.items()}
    P = lambda i: {k2: float(a[i]) for k2, a in params.items()}
    S = lambda i: {k2: float(a[i]) for k2, a in states.items()}
    tag = dict(mech=mech, vclass=case["vclass"])

    def report(monitor, bad, quantity, gate=None):
        for (i, g, w) in bad[:1]:
            pr = P(i)
            rec._c(monitor, "violated", len(bad) - 1)
            rec.violated(monitor, quantity=quantity, gate=gate, v=float(v[i]), v_hex=float(v[i]).hex(), got=g, want=w,
                         n_bad=len(bad), params=pr, v_plus_vx=float(v[i] + pr.get(f"{p}_vx", 0.0)), **tag)

    if not is_syn:
        for key, fn in R2.fmt(spec["gates"], p).items():
            g = key[len(p) + 1:]
            want = [fn(float(v[i]), P(i), p) for i in range(NV)]
            if mech == "HH" or mech == "CaL":
                out = getattr(obj, f"{g}_gate")(jnp.asarray(v))
            elif mech in ("Na", "K"):
                out = getattr(obj, f"{g}_gate")(jnp.asarray(v), jp["vt"])
            elif mech == "Km":
                out = obj.p_gate(jnp.asarray(v), jp[f"{p}_taumax"])
            else:
                out = obj.u_gate(jnp.asarray(v), jp[f"{p}_vx"])
            a, b = np.asarray(out[0], dtype=np.float64), np.asarray(out[1], dtype=np.float64)
            if "alpha" in want[0]:
                report("rates", _cmp(rec, "rates", a, [w["alpha"] for w in want], "rate"), "alpha", g)
                report("rates", _cmp(rec, "rates", b, [w["beta"] for w in want], "rate"), "beta", g)
                with np.errstate(all="ignore"):
                    inf, tau = a / (a + b), 1.0 / (a + b)
            else:
                inf, tau = a, b
            report("rates", _cmp(rec, "rates", inf, [w["inf"] for w in want], "inf"), "inf", g)
            report("rates", _cmp(rec, "rates", tau, [w["tau"] for w in want], "tau"), "tau", g)
            rec.sig(f"{mech}|{g}|{case['vclass']}")
        cur = obj.compute_current(js, jnp.asarray(v), jp)
        want = [spec["current"](float(v[i]), S(i), P(i), p) for i in range(NV)]
        gmax = max(float(np.max(a)) for k2, a in params.items() if "_g" in k2)
        report("currents", _cmp(rec, "currents", cur, want, "cur", floor=1e-13 * gmax), "current")
        rec.sig(f"{mech}|current|{case['vclass']}")
        # the state update as a whole (which rate function is used with which parameter) against the papers
        if stable:
            dt = float(trees.logu(rng, 1e-3, 10.0))
            new = obj.update_states(js, dt, jnp.asarray(v), jp)
            for key, fn in R2.fmt(spec["gates"], p).items():
                keep = np.ones(NV, bool)
                if mech == "CaT":
                    keep = (v + params[f"{p}_vx"]) < -20.5  # above: tau_u is known finding F12, judged by the tau comparison
                want = []
                for i in np.where(keep)[0]:
                    r = fn(float(v[i]), P(i), p)
                    x = mp.mpf(float(states[key][i]))
                    want.append(r["inf"] + (x - r["inf"]) * mp.exp(-mp.mpf(dt) / r["tau"]))
                if len(want):
                    bad = _cmp(rec, "rates", np.asarray(new[key])[keep], want, "inf")
                    idx = np.where(keep)[0]
                    report("rates", [(int(idx[i]), g, w) for (i, g, w) in bad], "state_update", key[len(p) + 1:])
            rec.sig(f"{mech}|update|{case['vclass']}")
    else:
        vpost = rng.uniform(-100, 50, NV)
        cur = obj.compute_current(js, jnp.asarray(v), jnp.asarray(vpost), jp)
        want = [spec["current"](float(v[i]), float(vpost[i]), S(i), P(i), p) for i in range(NV)]
        gmax = max(float(np.max(a)) for k2, a in params.items() if "_g" in k2)
        report("currents", _cmp(rec, "currents", np.broadcast_to(np.asarray(cur), (NV,)), want, "cur", floor=1e-13 * gmax), "current")
        rec.sig(f"{mech}|current|{case['vclass']}")
        for key, fn in R2.fmt(spec["gates"], p).items():
            dt = float(trees.logu(rng, 1e-3, 10.0))
            new = obj.update_states(js, dt, jnp.asarray(v), jnp.asarray(vpost), jp)[key]
            want = []
            for i in range(NV):
                r = fn(float(v[i]), P(i), p)
                x = mp.mpf(float(states[key][i]))
                want.append(r["inf"] + (x - r["inf"]) * mp.exp(-mp.mpf(dt) / r["tau"]) if r["tau"] > 0 else r["inf"])
            report("rates", _cmp(rec, "rates", new, want, "inf"), "state_update", key)
            rec.sig(f"{mech}|update|{case['vclass']}")


def _rename(case, rec, mk, is_syn):
    import jax.numpy as jnp

    rng = trees.rng_for(case["k"], PID, 2)
    o, r = mk(), mk()
    old = o._name
    for new in case["chain"]:
        ret = r.change_name(new)
        rec.check("rename", ret is r, mech=case["mech"], what="change_name must return the instance", chain=case["chain"])
    new = case["chain"][-1]
    tab = lambda x: dict(x.synapse_params if is_syn else x.channel_params)
    stab = lambda x: dict(x.synapse_states if is_syn else x.channel_states)

    def mapkey(k):
        return new + k[len(old):] if k.startswith(old + "_") else k

    for name, f in (("params", tab), ("states", stab)):
        want = {mapkey(k): v for k, v in f(o).items()}
        rec.check("rename", f(r) == want and list(f(r)) == list(want), mech=case["mech"], what=f"renamed {name} table",
                  chain=case["chain"], got=f(r), want=want)
    rec.check("rename", r._name == new and r.name == new, mech=case["mech"], what="name", got=r._name)
    n = 64
    v = rng.uniform(-150, 100, n)
    vpost = rng.uniform(-100, 50, n)
    pv = {k: float(val) * rng.uniform(0.5, 1.5, n) for k, val in tab(o).items()}
    sv = {k: rng.uniform(0, 1, n) for k in stab(o)}
    po = {k: jnp.asarray(a) for k, a in pv.items()}
    so = {k: jnp.asarray(a) for k, a in sv.items()}
    pr = {mapkey(k): a for k, a in po.items()}
    sr = {mapkey(k): a for k, a in so.items()}
    if len(pr) != len(po) or len(sr) != len(so):
        rec.skipped("rename", "prefix collides with an unprefixed key")
        return
    dt = 0.025
    try:
        if is_syn:
            uo = o.update_states(so, dt, jnp.asarray(v), jnp.asarray(vpost), po)
            ur = rec.call("rename", r.update_states, sr, dt, jnp.asarray(v), jnp.asarray(vpost), pr, where="renamed update_states")
            co = o.compute_current(so, jnp.asarray(v), jnp.asarray(vpost), po)
            cr = rec.call("rename", r.compute_current, sr, jnp.asarray(v), jnp.asarray(vpost), pr, where="renamed compute_current")
            io = ir = {}
        else:
            uo = o.update_states(so, dt, jnp.asarray(v), po)
            ur = rec.call("rename", r.update_states, sr, dt, jnp.asarray(v), pr, where="renamed update_states")
            co = o.compute_current(so, jnp.asarray(v), po)
            cr = rec.call("rename", r.compute_current, sr, jnp.asarray(v), pr, where="renamed compute_current")
            io = o.init_state(so, jnp.asarray(v), po, dt)
            ir = rec.call("rename", r.init_state, sr, jnp.asarray(v), pr, dt, where="renamed init_state")
    except Exception as e:  # Refused: a renamed mechanism that raises has changed its dynamics
        from jxmon.core import Refused
        if isinstance(e, Refused):
            rec.violated("rename", mech=case["mech"], chain=case["chain"], what="renamed instance raises", error=repr(e.exc)[:200])
            return
        raise
    same = lambda a, b: np.array_equal(np.asarray(a), np.asarray(b), equal_nan=True)
    rec.check("rename", set(ur) == {mapkey(k) for k in uo} and all(same(ur[mapkey(k)], uo[k]) for k in uo),
              mech=case["mech"], chain=case["chain"], what="update_states differs after rename", keys=list(ur))
    rec.check("rename", same(co, cr), mech=case["mech"], chain=case["chain"], what="compute_current differs after rename")
    rec.check("rename", set(ir) == {mapkey(k) for k in io} and all(same(ir[mapkey(k)], io[k]) for k in io),
              mech=case["mech"], chain=case["chain"], what="init_state differs after rename", keys=list(ir))
    rec.sig(f"rename|{case['mech']}|{'>'.join(case['chain'])}")


def classify(case, v):
    d = v.get("detail", {})
    if d.get("mech") == "CaT" and d.get("gate") == "u" and d.get("quantity") == "tau" and d.get("v_plus_vx", -1e9) > -20.0:
        # (b) the wrong value must be the one the finding predicts: both exponentials clipped at exp(20)
        import math
        x = d["v_plus_vx"]
        pred = (30.8 + (211.4 + math.exp(min((x + 113.2) / 5.0, 20.0)))) / (3.7 * (1 + math.exp(min((x + 84.0) / 3.2, 20.0))))
        if isinstance(d.get("got"), float) and abs(d["got"] - pred) <= 1e-9 * abs(pred):
            return "F12"
    return None
