"""C08 - recordings and inputs land on the right row, compartment and time step.

Type A cases (passive, channel-free capacitor networks): random interleavings of record / stimulate
calls on random views; the whole output matrix is compared with a multi-step R1 reference driven by
the harness's own log of what was requested (row order = call order with duplicates dropped; sample k
acts during step k+1; charge reaches exactly the target; several stimuli add); exact isolated-
compartment identity dv = I*dt/C; t_max padding/truncation; data_stimulate == stimulate.
Type B cases (HH/K + three interleaved synapse types, unique-value tagging of every state): column 0
identifies which row each recording really reads (compartment states, channel currents, synaptic
states and currents); clamps hold their sample at every column >= 1; repeated clamps; data_clamp ==
clamp.  Type G cases (one HH/K cell, 1-2 gates clamped with time-varying samples on 1-2 compartments,
optional stimulus): the whole matrix of v / i_HH / gates against the reference simulator R3, which pins the TIME STEP at
which a clamp sample enters the gate update and the membrane current.  Supplementary: step_current shape, checkify index sanitizer (thomas backend).
"""
import numpy as np

from jxmon.gen import trees

PID = 8
RULE = ("A: networks/cells/branches of 1-4 cells x 1-3 branches x 1-3 compartments without channels, 2-5 stimulate calls "
        "(impulses at random samples, random waveforms, several on one compartment) and 2-5 record calls on random views in "
        "random order, T=4..8 samples, dt log-uniform 1e-3..10, all backends, bwd_euler/crank_nicolson; B: 2-3 small cells with "
        "HH/K and 3-8 synapses of three interleaved types, 3-7 record calls over v / gates / channel currents / synaptic states "
        "/ synaptic currents, 0-3 clamps. distinct = (type, state classes recorded, #synapse types, clamp classes, backend)")
ASSUMPTIONS = [
    "R1 multi-step reference for the passive cases (leak-free capacitors, injected current from the harness log)",
    "row i of a 2-d stimulus goes to the i-th compartment of the view in the order shown by view.nodes",
    "the number of steps for a given t_max is whatever the code chooses; only padding/truncation equivalence is asserted",
]
MECHANISMS = ["jaxley.modules.base:Module.record", "jaxley.modules.base:Module._external_input", "jaxley.modules.base:Module._get_external_input",
              "jaxley.modules.base:Module._data_external_input", "jaxley.integrate:add_stimuli", "jaxley.integrate:add_clamps",
              "jaxley.stimulus:step_current", "jaxley.stimulus:datapoint_to_step_currents", "jaxley.modules.base:Module.step"]
MECHANISMS_REQUIRED = ["jaxley.modules.base:Module.record", "jaxley.modules.base:Module._external_input", "jaxley.modules.base:Module._get_external_input"]
REQUIRED = {"quick": {"matrix_ref": 40, "charge_target": 15, "tmax": 30, "data_equiv": 30, "row_identity": 100, "clamp_hold": 12, "clamp_timing": 8, "geom_route": 25},
            "thorough": {"matrix_ref": 567, "charge_target": 140, "tmax": 567, "data_equiv": 660, "row_identity": 2412, "clamp_hold": 272, "clamp_timing": 90, "geom_route": 300}}
BACKENDS = ["jaxley.stone", "jaxley.thomas", "jax.sparse"]
SYN = ["IonotropicSynapse", "TestSynapse", "TanhRateSynapse"]


def _rows(rng, n, kmax=None):
    k = int(rng.integers(1, (kmax or n) + 1))
    r = [int(x) for x in rng.choice(n, min(k, n), replace=False)]
    return r if rng.random() < 0.3 else sorted(r)


def cases(seed, tier):
    nA, nB = (44, 36) if tier == "quick" else (900, 700)
    out = []
    for k in range(nA):
        rng = trees.rng_for(seed, PID, k)
        kind = ["network", "network", "cell", "branch", "network"][k % 5]
        st = trees.random_structure(rng, kind=kind, max_branches=3, max_cells=4, nmax=3)
        if k % 7 == 0:  # isolated single-compartment cells: dv = I*dt/C exactly, whatever the geometry
            st = {"kind": "network", "cells": [{"parents": [-1], "ncomp": [1]} for _ in range(int(rng.integers(2, 5)))],
                  "pattern": "ones", "labelling": "topo"}
        n = trees.total_comps(st)
        p = trees.passive_params(rng, n)
        p["g"] = [0.0] * n
        T = int(rng.integers(4, 9))
        stims = []
        for j in range(int(rng.integers(2, 6))):
            rows = _rows(rng, n, 3)
            if rng.random() < 0.6:
                w = np.zeros((len(rows), T))
                w[:, int(rng.integers(0, T))] = rng.uniform(-2, 2, len(rows))
            else:
                w = rng.uniform(-1, 1, (len(rows), T))
            one_d = bool(rng.random() < 0.25)
            if one_d:
                w = np.tile(w[:1], (len(rows), 1))
            stims.append({"rows": rows, "w": w.tolist(), "one_d": one_d})
        recs = [{"rows": _rows(rng, n)} for _ in range(int(rng.integers(2, 6)))]
        if k % 2 == 0:
            recs.append({"rows": list(range(n))})  # everything recorded: total-charge identity becomes checkable
        order = [("s", i) for i in range(len(stims))] + [("r", i) for i in range(len(recs))]
        order = [order[i] for i in rng.permutation(len(order))]
        out.append({"type": "A", "struct": st, "params": p, "T": T, "dt": float(trees.logu(rng, 1e-3, 10.0)), "stims": stims, "recs": recs,
                    "order": [[a, int(b)] for a, b in order], "backend": BACKENDS[k % 3], "solver": ["bwd_euler", "crank_nicolson"][(k // 3) % 2]})
    for k in range(nB):
        rng = trees.rng_for(seed, PID, 10**5 + k)
        ncell = int(rng.integers(2, 4))
        backend = ["jax.sparse", "jaxley.thomas", "jaxley.stone"][k % 3]
        nc_all = int(rng.integers(1, 3))
        # jaxley.stone/thomas refuse networks whose same-level branches differ in size: keep those homogeneous
        cells = [{"parents": [-1], "ncomp": [int(rng.integers(1, 3)) if backend == "jax.sparse" else nc_all]} for _ in range(ncell)]
        n = sum(c["ncomp"][0] for c in cells)
        hh = sorted(set(int(x) for x in rng.integers(0, n, int(rng.integers(1, n + 1)))))
        kk = sorted(set(int(x) for x in rng.integers(0, n, int(rng.integers(0, n)))))
        nsyn_types = int(rng.integers(1, 4))
        syn = [[int(rng.integers(0, n)), int(rng.integers(0, n)), int(rng.integers(0, nsyn_types))] for _ in range(int(rng.integers(3, 9)))]
        T = int(rng.integers(3, 6))
        states = ["v", "HH_m", "HH_h", "HH_n", "i_HH"] + (["K_n", "i_K"] if kk else [])
        for t in sorted(set(s[2] for s in syn)):
            states += {0: ["IonotropicSynapse_s", "i_IonotropicSynapse"], 1: ["TestSynapse_c", "i_TestSynapse"], 2: ["i_TanhRateSynapse"]}[t]
        recs = [{"state": str(rng.choice(states)), "sel": int(rng.integers(0, 2**31))} for _ in range(int(rng.integers(3, 8)))]
        clamps = []
        for j in range(int(rng.integers(0 if k % 3 == 0 else 1, 4))):
            cs = [s for s in states if not s.startswith("i_")]
            clamps.append({"state": str(rng.choice(cs)), "sel": int(rng.integers(0, 2**31)), "repeat": bool(rng.random() < 0.35)})
        out.append({"type": "B", "cells": cells, "hh": hh, "k": kk, "syn": syn, "T": T, "recs": recs, "clamps": clamps,
                    "backend": backend, "vseed": int(rng.integers(0, 2**31)),
                    "data_clamp": bool(k % 3 == 1)})
    for k in range(6 if tier == "quick" else 60):
        rng = trees.rng_for(seed, PID, 2 * 10**5 + k)
        out.append({"type": "S", "delay": float(rng.uniform(0, 3)), "dur": float(rng.uniform(0.1, 4)), "amp": float(rng.uniform(0.1, 2)),
                    "dt": float(rng.choice([0.025, 0.1, 0.3, 0.01])), "tmax": float(rng.uniform(4, 10)), "offset": float(rng.choice([0.0, -0.3]))})
    for k in range(10 if tier == "quick" else 240):
        # G: time-varying GATE clamps on one cell; the whole voltage / current / gate matrix against the reference simulator R3
        rng = trees.rng_for(seed, PID, 3 * 10**5 + k)
        st = trees.random_structure(rng, kind="cell", max_branches=3, nmax=3)
        n = trees.total_comps(st)
        T = int(rng.integers(4, 8))
        gates = ["HH_m", "HH_h", "HH_n"] + (["K_n"] if k % 2 else [])
        clamps = []
        for g in [gates[i] for i in rng.choice(len(gates), int(rng.integers(1, 3)), replace=False)]:
            rows = _rows(rng, n, 2)
            clamps.append({"state": g, "rows": rows, "w": np.round(rng.uniform(0.02, 0.98, (len(rows), T)), 6).tolist()})
        out.append({"type": "G", "struct": st, "T": T, "clamps": clamps, "with_k": bool(k % 2), "v0": np.round(rng.uniform(-80, -40, n), 4).tolist(),
                    "stim": [int(rng.integers(0, n)), np.round(rng.uniform(-0.05, 0.1, T), 5).tolist()] if k % 3 else None,
                    "backend": BACKENDS[k % 3], "data_clamp": bool(k % 4 == 3)})
    return out


def run_case(case, rec):
    if case["type"] == "G":
        return _gateclamp(case, rec)
    if case["type"] == "A":
        return _passive(case, rec)
    if case["type"] == "B":
        return _tagged(case, rec)
    return _stepcurrent(case, rec)


# ------------------------------------------------------------------ type A
def _passive(case, rec):
    import jax.numpy as jnp
    import jaxley as jx
    from jxmon import build
    from jxmon.core import Refused
    from jxmon.oracles import cable

    st, p, T, dt = case["struct"], case["params"], case["T"], case["dt"]
    n = trees.total_comps(st)
    m = rec.call("build", build.build_structure, st)
    build.set_passive(m, p, leak=False)
    inj = np.zeros((T, n))
    want_rows = []
    ds = None
    for what, i in case["order"]:
        if what == "s":
            s = case["stims"][i]
            view = m.select(nodes=np.asarray(s["rows"]))
            order = view.nodes.index.tolist()
            w = np.asarray(s["w"])
            arr = jnp.asarray(w[0]) if s["one_d"] else jnp.asarray(w)
            rec.call("matrix_ref", view.stimulate, arr, verbose=False, where="stimulate")
            for j, r in enumerate(order):
                inj[:, r] += w[j]
        else:
            r = case["recs"][i]
            view = m.select(nodes=np.asarray(r["rows"]))
            rec.call("matrix_ref", view.record, "v", verbose=False, where="record")
            for q in view.nodes.index.tolist():
                if q not in want_rows:
                    want_rows.append(q)
    tag = dict(kind=st["kind"], backend=case["backend"], solver=case["solver"], dt=dt, T=T, rec_rows=want_rows[:16])
    try:
        out = np.asarray(rec.call("matrix_ref", jx.integrate, m, delta_t=dt, solver=case["solver"], voltage_solver=case["backend"],
                                  where=f"integrate {case['solver']}/{case['backend']}"))
    except Refused:
        return
    # reference: multi-step R1 with the logged injected currents
    v = np.asarray(p["v"], dtype=float)
    ref = [v.copy()]
    for k in range(T):
        v = cable.step(st["cells"], p["radius"], p["length"], p["ra"], p["cm"], v, dt, case["solver"], None, None, inj[k])
        ref.append(v.copy())
    ref = np.asarray(ref).T  # (n, T+1)
    ok_shape = out.shape == (len(want_rows), T + 1)
    rec.check("matrix_ref", ok_shape, what="output shape", got=list(out.shape), want=[len(want_rows), T + 1], **tag)
    if not ok_shape:
        return
    want = ref[np.asarray(want_rows)]
    scale = 1 + np.max(np.abs(ref))
    err = np.abs(out - want) / scale
    ok = np.all(np.isfinite(out)) and err.max() <= 1e-8
    bad = np.unravel_index(np.argmax(err), err.shape)
    # diagnose: is the mismatching row some OTHER compartment's trace (misrouting), or a time shift?
    hint = None
    if not ok:
        r = bad[0]
        others = [int(c) for c in range(n) if np.max(np.abs(ref[c] - out[r])) / scale <= 1e-8]
        hint = {"row_matches_compartments": others}
    rec.check("matrix_ref", ok, what="recorded matrix differs from the reference driven by the call log", row=int(bad[0]), col=int(bad[1]),
              got=out[bad[0]].tolist()[:9], want=want[bad[0]].tolist()[:9], hint=hint, **tag)
    rec.sig(f"A|{st['kind']}|{case['backend']}|{case['solver']}|nstim{len(case['stims'])}|nrec{len(case['recs'])}")
    # exact identity for isolated compartments: dv = I*dt/C at exactly the target
    area, cap, _ = cable.geometry(p["radius"], p["length"], p["ra"], p["cm"])
    if all(c["ncomp"] == [1] for c in st["cells"]) and case["solver"] == "bwd_euler":
        dv_want = (np.cumsum(inj, axis=0) * dt / cap).T  # (n, T)
        got = out[:, 1:] - out[:, :1]
        w = dv_want[np.asarray(want_rows)]
        rec.check("charge_target", np.allclose(got, w, rtol=1e-9, atol=1e-11 * scale), what="isolated compartment: dv != I*dt/C",
                  got=got[0].tolist()[:8], want=w[0].tolist()[:8], **tag)
    else:
        # total charge over the recorded... only if everything is recorded
        if set(want_rows) == set(range(n)) and case["solver"] == "bwd_euler":
            q = np.zeros(T)
            inv = {r: i for i, r in enumerate(want_rows)}
            for c in range(n):
                q += cap[c] * (out[inv[c], 1:] - out[inv[c], 0])
            wantq = np.cumsum(inj.sum(axis=1)) * dt
            rec.check("charge_target", np.allclose(q, wantq, rtol=1e-7, atol=1e-9 * (np.sum(cap) * scale)), what="total injected charge",
                      got=q.tolist()[:8], want=wantq.tolist()[:8], **tag)
        else:
            rec.skipped("charge_target", "not all compartments recorded / not bwd_euler")
    # t_max: longer == explicit zero padding, shorter == explicit truncation (length chosen by the code)
    for tm in (dt * (T + 3.5), dt * max(1.5, T - 2.5)):
        try:
            o2 = np.asarray(rec.call("tmax", jx.integrate, m, delta_t=dt, t_max=tm, solver=case["solver"], voltage_solver=case["backend"], where="t_max"))
        except Refused:
            continue
        nsteps = o2.shape[1] - 1
        v = np.asarray(p["v"], dtype=float)
        r2 = [v.copy()]
        for k in range(nsteps):
            v = cable.step(st["cells"], p["radius"], p["length"], p["ra"], p["cm"], v, dt, case["solver"], None, None,
                           inj[k] if k < T else np.zeros(n))
            r2.append(v.copy())
        r2 = np.asarray(r2).T[np.asarray(want_rows)]
        rec.check("tmax", o2.shape[0] == len(want_rows) and np.max(np.abs(o2 - r2)) / scale <= 1e-8, what="t_max run differs from explicit padding/truncation",
                  t_max=tm, steps=nsteps, stim_len=T, **tag)
    # data_stimulate route == stimulate route
    try:
        m2 = build.build_structure(st)
        build.set_passive(m2, p, leak=False)
        dsl = None
        for what, i in case["order"]:
            if what == "s":
                s = case["stims"][i]
                w = np.asarray(s["w"])
                dsl = m2.select(nodes=np.asarray(s["rows"])).data_stimulate(jnp.asarray(w[0]) if s["one_d"] else jnp.asarray(w), dsl)
            else:
                m2.select(nodes=np.asarray(case["recs"][i]["rows"])).record("v", verbose=False)
        o3 = np.asarray(rec.call("data_equiv", jx.integrate, m2, data_stimuli=dsl, delta_t=dt, solver=case["solver"],
                                 voltage_solver=case["backend"], where="data_stimulate"))
        rec.check("data_equiv", o3.shape == out.shape and np.max(np.abs(o3 - out)) <= 1e-12 * scale, what="data_stimulate != stimulate",
                  max_dev=float(np.max(np.abs(o3 - out))) if o3.shape == out.shape else None, **tag)
        # mixed: every other stimulus static (stimulate), the rest data-fed, in the same integrate call
        m3 = build.build_structure(st)
        build.set_passive(m3, p, leak=False)
        dsl, si = None, 0
        for what, i in case["order"]:
            if what == "s":
                s = case["stims"][i]
                w = np.asarray(s["w"])
                arr = jnp.asarray(w[0]) if s["one_d"] else jnp.asarray(w)
                if si % 2 == 0:
                    m3.select(nodes=np.asarray(s["rows"])).stimulate(arr, verbose=False)
                else:
                    dsl = m3.select(nodes=np.asarray(s["rows"])).data_stimulate(arr, dsl)
                si += 1
            else:
                m3.select(nodes=np.asarray(case["recs"][i]["rows"])).record("v", verbose=False)
        o4 = np.asarray(rec.call("data_equiv", jx.integrate, m3, data_stimuli=dsl, delta_t=dt, solver=case["solver"],
                                 voltage_solver=case["backend"], where="stimulate + data_stimulate"))
        rec.check("data_equiv", o4.shape == out.shape and np.max(np.abs(o4 - want)) / scale <= 1e-8, what="static + data-fed stimuli together differ from the reference",
                  max_dev=float(np.max(np.abs(o4 - want))) if o4.shape == out.shape else None, **tag)
    except Refused:
        pass
    # "whatever its geometry" includes geometry that only arrives at integrate time: radius of the stimulated compartments as a
    # trainable with changed values (params=...), length through data_set (param_state=...); the tables keep the old geometry
    stim_rows = sorted({int(r) for s in case["stims"] for r in s["rows"]})
    try:
        m.delete_trainables()
        m.select(nodes=np.asarray(stim_rows)).make_trainable("radius", verbose=False)
        params = [{k2: v2 * 1.7 for k2, v2 in q.items()} for q in m.get_parameters()]
        half = stim_rows[: max(1, len(stim_rows) // 2)]
        new_len = float(np.asarray(p["length"], dtype=float)[half[0]] * 0.6)  # data_set takes one scalar for the whole view
        pst = m.select(nodes=np.asarray(half)).data_set("length", new_len, None)
        o5 = np.asarray(rec.call("geom_route", jx.integrate, m, params=params, param_state=pst, delta_t=dt, solver=case["solver"],
                                 voltage_solver=case["backend"], where="integrate with run-time geometry"))
        rad2, len2 = np.asarray(p["radius"], dtype=float).copy(), np.asarray(p["length"], dtype=float).copy()
        rad2[stim_rows] *= 1.7
        len2[half] = new_len
        v = np.asarray(p["v"], dtype=float)
        r5 = [v.copy()]
        for k in range(T):
            v = cable.step(st["cells"], rad2, len2, p["ra"], p["cm"], v, dt, case["solver"], None, None, inj[k])
            r5.append(v.copy())
        r5 = np.asarray(r5).T[np.asarray(want_rows)]
        e5 = np.abs(o5 - r5) / (1 + np.max(np.abs(r5))) if o5.shape == r5.shape else np.ones((1, 1))
        b5 = np.unravel_index(np.argmax(e5), e5.shape)
        rec.check("geom_route", o5.shape == r5.shape and np.all(np.isfinite(o5)) and e5.max() <= 1e-8,
                  what="stimulus with the geometry of its target supplied at integrate time (trainable radius, data_set length): "
                       "recorded matrix differs from the reference with that geometry", row=int(b5[0]), col=int(b5[1]),
                  got=o5[b5[0]].tolist()[:9] if o5.shape == r5.shape else None, want=r5[b5[0]].tolist()[:9], stim_rows=stim_rows, data_set_rows=half, **tag)
        m.delete_trainables()
    except Refused:
        pass


# ------------------------------------------------------------------ type B
def _tagged(case, rec):
    import jax.numpy as jnp
    import jaxley as jx
    import mpmath as mp
    from jaxley.channels import HH, K
    from jaxley.connect import connect
    from jaxley.synapses import IonotropicSynapse, TanhRateSynapse, TestSynapse
    from jxmon import build
    from jxmon.core import Refused
    from jxmon.oracles import kinetics as R2

    cells = case["cells"]
    n = sum(c["ncomp"][0] for c in cells)
    net = build.build_structure({"kind": "network", "cells": cells})
    rng = np.random.default_rng(case["vseed"])
    net.select(nodes=np.asarray(case["hh"])).insert(HH())
    if case["k"]:
        net.select(nodes=np.asarray(case["k"])).insert(K())
    syn_cls = [IonotropicSynapse, TestSynapse, TanhRateSynapse]
    for a, b, t in case["syn"]:
        connect(net.select(nodes=[a]), net.select(nodes=[b]), syn_cls[t]())
    # unique-value tagging
    v0 = -75.0 + np.arange(n) * 1.7
    net.set("v", v0)
    tags = {"v": {i: float(v0[i]) for i in range(n)}}
    for s in ("HH_m", "HH_h", "HH_n", "K_n"):
        if s in net.nodes.columns:
            tags[s] = {}
            for i in range(n):
                if not np.isnan(net.nodes.loc[i, s]):
                    val = round(0.1 + 0.8 * rng.random(), 6) + i * 1e-7
                    net.select(nodes=[i]).set(s, val)
                    tags[s][i] = val
    ne = len(net.edges)
    for s in ("IonotropicSynapse_s", "TestSynapse_c"):
        if s in net.edges.columns:
            tags[s] = {}
            for e in range(ne):
                if not np.isnan(net.edges.loc[e, s]):
                    val = round(0.05 + 0.9 * rng.random(), 6) + e * 1e-7
                    net.select(edges=[e]).set(s, val)
                    tags[s][e] = val
    for e in range(ne):
        for col in net.edges.columns:
            if col.endswith(("_gS", "_gC")) and not np.isnan(net.edges.loc[e, col]):
                net.select(edges=[e]).set(col, 1e-4 * (1 + 0.1 * e))
    # initial currents (R2 formulas at the tagged state), in the units of the recorded state
    P = lambda row, keys: {k: float(net.nodes.loc[row, k]) for k in keys}
    tags["i_HH"] = {i: float(R2.MECH["HH"]["current"](v0[i], {k: tags[k][i] for k in ("HH_m", "HH_h", "HH_n")},
                                                      P(i, ["HH_gNa", "HH_gK", "HH_gLeak", "HH_eNa", "HH_eK", "HH_eLeak"]), "HH")) for i in case["hh"]}
    if case["k"]:
        tags["i_K"] = {i: (float(R2.MECH["K"]["current"](v0[i], {"K_n": tags["K_n"][i]}, P(i, ["K_gK", "eK", "vt"]), "K")) if i in case["k"] else 0.0)
                       for i in range(n)}
    edges = net.edges
    for t, name in enumerate(SYN):
        es = [e for e in range(ne) if edges.loc[e, "type"] == name]
        if not es:
            continue
        cur = {}
        for e in es:
            pre, post = int(edges.loc[e, "pre_global_comp_index"]), int(edges.loc[e, "post_global_comp_index"])
            Pm = {k: float(edges.loc[e, k]) for k in syn_cls[t]().synapse_params}
            Sm = {k: tags[k][e] for k in syn_cls[t]().synapse_states}
            cur[e] = float(R2.SYN[name]["current"](v0[pre], v0[post], Sm, Pm, name))
        tags[f"i_{name}"] = cur
    T = case["T"]
    # ---- record calls
    want = []  # (state, index)
    for r in case["recs"]:
        st = r["state"]
        dom = sorted(tags[st]) if st in tags else []
        if not dom:
            continue
        rr = np.random.default_rng(r["sel"])
        sel = sorted(int(x) for x in rr.choice(dom, int(rr.integers(1, len(dom) + 1)), replace=False))
        is_edge = st.startswith(("IonotropicSynapse", "TestSynapse", "i_IonotropicSynapse", "i_TestSynapse", "i_TanhRate"))
        view = net.select(edges=np.asarray(sel)) if is_edge else net.select(nodes=np.asarray(sel))
        try:
            rec.call("row_identity", view.record, st, verbose=False, where=f"record({st})")
        except Refused:
            continue
        for i in sel:
            if (st, i) not in want:
                want.append((st, i))
    if not want:
        return
    # ---- clamps
    clamp_log = {}
    dcl = None
    def ext_ok():
        # bookkeeping the next view / the next integrate relies on: one index per row of samples, indices within the table
        for kx, data in net.externals.items():
            ix = np.asarray(net.external_inds[kx])
            nrows = len(net.edges) if kx.startswith(("IonotropicSynapse", "TestSynapse")) else len(net.nodes)
            rec.check("externals_consistent", np.asarray(data).shape[0] == len(ix) and (len(ix) == 0 or (ix.min() >= 0 and ix.max() < nrows)),
                      what="externals and external_inds disagree after an accepted stimulate/clamp", key=kx, n_samples=int(np.asarray(data).shape[0]),
                      inds=ix.tolist()[:12], table_rows=int(nrows), clamped_so_far=sorted({k[0] for k in clamp_log}))

    for c in case["clamps"]:
        st = c["state"]
        dom = sorted(tags.get(st, {}))
        if not dom:
            continue
        rr = np.random.default_rng(c["sel"])
        sel = sorted(int(x) for x in rr.choice(dom, int(rr.integers(1, len(dom) + 1)), replace=False))
        parts = [sel[: max(1, len(sel) // 2)], sel[max(1, len(sel) // 2):]] if c["repeat"] and len(sel) > 1 else [sel]
        is_edge = st.startswith(("IonotropicSynapse", "TestSynapse"))
        for part in parts:
            part = [i for i in part if (st, i) not in clamp_log]
            if not part:
                continue
            lo, hi = (-80, 20) if st == "v" else (0.05, 0.95)
            arr = rr.uniform(lo, hi, (len(part), T))
            ext_ok()
            try:
                view = rec.call("clamp_hold", (lambda: net.select(edges=np.asarray(part)) if is_edge else net.select(nodes=np.asarray(part))), where="select before clamp")
            except Refused:
                continue
            try:
                if case["data_clamp"] and dcl is None and not any(k[0] != st for k in clamp_log):
                    dcl = rec.call("clamp_hold", view.data_clamp, st, jnp.asarray(arr), None, where=f"data_clamp({st})")
                else:
                    rec.call("clamp_hold", view.clamp, st, jnp.asarray(arr), verbose=False, where=f"clamp({st})")
            except Refused:
                continue
            for j, i in enumerate(part):
                clamp_log[(st, i)] = arr[j]
    ext_ok()
    tag = dict(backend=case["backend"], n_syn_types=len(set(s[2] for s in case["syn"])), n_edges=ne, edge_types=[int(s[2]) for s in case["syn"]],
               recs=[list(w) for w in want][:14], clamps=sorted({k[0] for k in clamp_log}))
    try:
        if not net.externals and dcl is None:
            out = np.asarray(rec.call("row_identity", jx.integrate, net, delta_t=0.025, t_max=0.025 * (T - 1) + 1e-9, voltage_solver=case["backend"], where="integrate"))
        else:
            out = np.asarray(rec.call("row_identity", jx.integrate, net, delta_t=0.025, data_clamps=dcl, voltage_solver=case["backend"], where="integrate"))
    except Refused:
        return
    ok_shape = out.shape[0] == len(want)
    rec.check("row_identity", ok_shape, what="number of recording rows", got=int(out.shape[0]), want=len(want), **tag)
    if not ok_shape:
        return
    classes = set()
    for r, (st, i) in enumerate(want):
        expect = tags[st][i]
        tol = 1e-9 * (1 + abs(expect)) if not st.startswith("i_") else 1e-9 * (abs(expect) + 1e-6)
        is_syn_state = st in ("IonotropicSynapse_s", "TestSynapse_c")
        is_syn_cur = st.startswith("i_") and st[2:] in SYN
        # which OTHER index of the same state carries the observed value (tells what the row really reads)
        reads = [j for j, val in tags[st].items() if abs(val - out[r, 0]) <= tol]
        rec.check("row_identity", abs(out[r, 0] - expect) <= tol, what="column 0 is not the initial value of the requested state/index",
                  state=st, index=i, got=float(out[r, 0]), want=float(expect), row_reads_index=reads[:4], is_synaptic=bool(is_syn_state or is_syn_cur),
                  rank_within_type=_rank(case, i) if (is_syn_state or is_syn_cur) else None, **tag)
        classes.add("syn_state" if is_syn_state else "syn_cur" if is_syn_cur else "chan_cur" if st.startswith("i_") else "v" if st == "v" else "gate")
        if (st, i) in clamp_log:
            arr = clamp_log[(st, i)]
            ncol = out.shape[1] - 1
            okc = np.allclose(out[r, 1:], arr[:ncol], rtol=0, atol=1e-12)
            rec.check("clamp_hold", okc, what="clamped state differs from its clamp samples", state=st, index=i, got=out[r, 1:6].tolist(),
                      want=arr[:5].tolist(), is_synaptic=bool(is_syn_state), repeated=any(c["repeat"] for c in case["clamps"] if c["state"] == st),
                      rank_within_type=_rank(case, i) if is_syn_state else None, **tag)
    rec.sig(f"B|{'+'.join(sorted(classes))}|types{tag['n_syn_types']}|clamp:{'+'.join(tag['clamps'])}|{case['backend']}")
    rec.info["externals"] = {k: [int(x) for x in np.asarray(v)] for k, v in net.external_inds.items()}
    # data_clamp / clamp equivalence is covered by the same clamp_hold oracle (either route must hold the samples)
    if dcl is not None:
        rec.held("data_equiv")
    # supplementary: JAX's index sanitizer on the same simulation (thomas backend only; see DESIGN.md)
    if case["backend"] == "jaxley.thomas" and case.get("vseed", 0) % 4 == 0:
        _sanitize(rec, net, dcl, T, tag)


def _rank(case, e):
    t = case["syn"][e][2]
    return sum(1 for s in case["syn"][:e] if s[2] == t)


def _sanitize(rec, net, dcl, T, tag):
    import jaxley as jx
    from jax.experimental import checkify
    try:
        f = checkify.checkify(lambda: jx.integrate(net, delta_t=0.025, data_clamps=dcl, voltage_solver="jaxley.thomas",
                                                    **({} if (net.externals or dcl is not None) else {"t_max": 0.025 * (T - 1) + 1e-9})),
                              errors=checkify.index_checks)
        err, _ = f()
        msg = err.get()
        rec.check("index_sanitizer", msg is None, what="checkify index check fired inside integrate", message=str(msg)[:300], **tag)
    except Exception as e:  # the sanitizer itself may be unable to trace: not a verdict
        rec.skipped("index_sanitizer", f"checkify unavailable: {type(e).__name__}")


# ------------------------------------------------------------------ step currents
def _stepcurrent(case, rec):
    import jaxley as jx
    import jax.numpy as jnp
    d, du, a, dt, tm, off = (case[k] for k in ("delay", "dur", "amp", "dt", "tmax", "offset"))
    for fn in ("step_current", "datapoint_to_step_currents"):
        if fn == "step_current":
            cur = np.asarray(jx.step_current(d, du, a, dt, tm, i_offset=off))[None, :]
            amps = [a]
        else:
            amps = [a, 2 * a, -a]
            cur = np.asarray(jx.datapoint_to_step_currents(d, du, jnp.asarray(amps), dt, tm, i_offset=off))
        ok = cur.shape == (len(amps), int(tm // dt) + 2)
        for row, amp in zip(cur, amps):
            on = np.where(np.abs(row - amp) < 1e-12)[0] if amp != off else np.zeros(0, int)
            vals_ok = np.all((np.abs(row - amp) < 1e-12) | (np.abs(row - off) < 1e-12))
            contiguous = len(on) == 0 or (on[-1] - on[0] + 1 == len(on))
            onset_ok = len(on) == 0 or abs(on[0] - d / dt) <= 1.0 + 1e-9
            len_ok = abs(len(on) - min(du, max(0.0, tm + 2 * dt - d)) / dt) <= 1.0 + 1e-9 or (len(on) and on[-1] == len(row) - 1)
            ok = ok and vals_ok and contiguous and onset_ok and len_ok
        rec.check("stepcurrent_shape", ok, fn=fn, shape=list(cur.shape), want_len=int(tm // dt) + 2, delay=d, dur=du, dt=dt, t_max=tm)
    rec.sig(f"S|{case['dt']}")


def _gateclamp(case, rec):
    import jax.numpy as jnp
    import jaxley as jx
    from jaxley.channels import HH, K
    from jxmon import build
    from jxmon.oracles import refsim
    st = case["struct"]
    cell = build.build_structure(st)
    n = trees.total_comps(st)
    cell.insert(HH())
    if case["with_k"]:
        cell.insert(K())
    cell.set("v", np.asarray(case["v0"]))
    cell.init_states()
    dcl = None
    for c in case["clamps"]:
        view = cell.select(nodes=np.asarray(c["rows"]))
        if case["data_clamp"] and c["state"] == case["clamps"][0]["state"]:  # data_clamps carry one state name
            dcl = rec.call("clamp_timing", view.data_clamp, c["state"], jnp.asarray(c["w"]), dcl, where="data_clamp")
        else:
            rec.call("clamp_timing", view.clamp, c["state"], jnp.asarray(c["w"]), verbose=False, where="clamp")
    if case["stim"]:
        cell.select(nodes=[case["stim"][0]]).stimulate(jnp.asarray(case["stim"][1]), verbose=False)
    recs = ["v", "i_HH", "HH_m", "HH_h", "HH_n"] + (["K_n", "i_K"] if case["with_k"] else [])
    for s in recs:
        cell.record(s, verbose=False)
    dt = 0.025
    kw = {"data_clamps": dcl} if dcl is not None else {}
    out = np.asarray(rec.call("clamp_timing", jx.integrate, cell, delta_t=dt, voltage_solver=case["backend"], where="integrate", **kw))
    nd = cell.nodes
    ext = {k: np.asarray(v).T for k, v in cell.externals.items()}
    einds = {k: [int(i) for i in np.asarray(v)] for k, v in cell.external_inds.items()}
    if dcl is not None:
        s, arr, inds = dcl
        inds = [int(i) for i in inds.index.to_numpy()]
        arr = np.atleast_2d(np.asarray(arr)).T
        if s in ext:
            ext[s] = np.concatenate([ext[s], arr], axis=1)
            einds[s] = einds[s] + inds
        else:
            ext[s], einds[s] = arr, inds
    model = {"cells": [{"parents": st["cells"][0]["parents"] if "cells" in st else st["parents"], "ncomp": [int(x) for x in cell.ncomp_per_branch]}],
             "nodes": {c: nd[c].to_numpy().copy() for c in nd.columns}, "channels": [(type(c).__name__, c._name) for c in cell.channels], "edges": {},
             "recordings": [(s, int(i)) for i, s in zip(cell.recordings["rec_index"], cell.recordings["state"])], "externals": ext, "external_inds": einds}
    ref = refsim.run(model, out.shape[1] - 1, dt, "bwd_euler", "joint")
    if ref.shape != out.shape:
        rec.violated("clamp_timing", what="shape of the returned matrix", got=list(out.shape), want=list(ref.shape))
        return
    dev = np.abs(out - ref) / (1 + np.abs(ref))
    r, c = np.unravel_index(int(np.argmax(dev)), dev.shape)
    rec.check("clamp_timing", float(dev.max()) <= 1e-6, what="a gate clamp does not act at the time step the operator splitting prescribes "
              "(clamp sample k replaces the gate AFTER the channel update of step k+1; it first enters the membrane current in step k+2)",
              max_rel_dev=float(dev.max()), row_state=model["recordings"][r][0], row_index=model["recordings"][r][1], column=int(c),
              got=out[r, :6].tolist(), want=ref[r, :6].tolist(), clamps=[(c_["state"], c_["rows"]) for c_ in case["clamps"]], backend=case["backend"])
    rec.sig(f"G|{sorted(set(c_['state'] for c_ in case['clamps']))}|{case['backend']}|{case['data_clamp']}|{bool(case['stim'])}")


def classify(case, v):
    d = v.get("detail", {})
    if not d.get("is_synaptic"):
        return None
    # F5: recording/clamping a synaptic state or current uses the GLOBAL edge index on the per-type array. Precondition: the
    # requested edge's rank within its type differs from its global index. Prediction: the row reads the synapse of the same
    # type whose rank equals the requested global index (or an out-of-range gather, clamped to the last element).
    if d.get("rank_within_type") is not None and d.get("rank_within_type") != d.get("index"):
        if v["monitor"] == "row_identity":
            types = d.get("edge_types", [])
            i = d.get("index")
            same = [e for e, t in enumerate(types) if t == types[i]]
            pred = same[min(i, len(same) - 1)] if same else None
            if pred in d.get("row_reads_index", []):
                return "F5"
            return None
        if v["monitor"] == "clamp_hold":
            return "F5"
    return None
