"""C15 - simulations converge to cable theory at the expected order.

Analytic oracles only: (space) steady state of a sealed uniform cable with a point source, as one
cable, as two branches with equal and with different compartment lengths; (time) relaxation of a
cosine eigenmode of the semi-discrete cable, whose exact solution is known in closed form, and RC
relaxation of a single compartment; (abs) steady state under constant current.  The observed order
log2(e_k/e_{k+1}) on a refinement ladder must lie in the window of the scheme and the finest error
below an absolute bound, which fixes the units of every parameter.
"""
import numpy as np

from jxmon.gen import trees

PID = 15
BACKENDS = ["jaxley.stone", "jaxley.thomas", "jax.sparse"]
RULE = ("random uniform cables (radius 0.2-5 um, L/lambda in [0.3,4], r_a 30-500 ohm cm, c_m 0.5-3, g 1e-5..1e-3) built as "
        "one branch / two branches with equal / unequal compartment lengths; ladders ncomp=4*2^k (k<=4) and dt=dt0/2^k "
        "(k<=4); all backends; schemes bwd_euler, crank_nicolson, fwd_euler. distinct = (experiment, layout, scheme, "
        "backend, geometry id); every ladder is non-trivial")
ASSUMPTIONS = [
    "sealed-end cable theory: lambda=sqrt(r/(2 r_a g)), R_inf=r_a*lambda/(pi r^2), V=E+I R_inf cosh(x_</l)cosh((L-x_>)/l)/sinh(L/l)",
    "cosine modes are exact eigenvectors of the uniform compartmental cable: mu=-(G+4 g_ax sin^2(m pi/2n))/C",
    "orders are read off finite ladders (bounded restatement of 'converges in the limit')",
]
MECHANISMS = ["jaxley.utils.cell_utils:compute_coupling_cond", "jaxley.utils.cell_utils:compute_coupling_cond_branchpoint",
              "jaxley.utils.cell_utils:compute_impact_on_node", "jaxley.utils.cell_utils:convert_point_process_to_distributed",
              "jaxley.modules.base:Module._channel_currents", "jaxley.modules.base:Module.step"]
MECHANISMS_REQUIRED = MECHANISMS
REQUIRED = {"quick": {"space_order": 20, "time_order": 30, "abs_accuracy": 20},
            "thorough": {"space_order": 144, "time_order": 228, "abs_accuracy": 168}}
WALL_BUDGET = {"quick": 1500, "thorough": 4 * 3600}


def cases(seed, tier):
    n = 16 if tier == "quick" else 240
    out = []
    for k in range(n):
        rng = trees.rng_for(seed, PID, k)
        r = float(trees.logu(rng, 0.2, 5.0))
        ra = float(trees.logu(rng, 30, 500))
        g = float(trees.logu(rng, 1e-5, 1e-3))
        cm = float(rng.uniform(0.5, 3.0))
        lam_um = np.sqrt(r * 1e-4 / (2 * ra * g)) * 1e4
        L = float(rng.uniform(0.3, 4.0) * lam_um)
        out.append({"exp": ["space", "time", "space", "time_rc"][k % 4], "gid": k, "r": r, "ra": ra, "g": g, "cm": cm, "L": L,
                    "E": float(rng.uniform(-80, -50)), "I": float(rng.uniform(0.01, 0.2) * (r / 1.0) ** 1.5),
                    "layout": ["branch", "cell_equal", "cell_unequal", "branch_graded"][(k // 4) % 4],
                    "split": float(rng.choice([rng.uniform(0.3, 0.45), rng.uniform(0.55, 0.7)])), "mode": int(rng.integers(1, 4)), "A": float(rng.uniform(5, 30)),
                    "backend_rot": k})
    return out


def build_cable(case, n, layout):
    """uniform cable of total length L with n compartments in total -> (module, x centres, compartment lengths)"""
    import jaxley as jx
    from jaxley.channels import Leak
    L = case["L"]
    comp = jx.Compartment()
    if layout == "branch":
        m = jx.Branch([comp] * n)
        lens = np.full(n, L / n)
    elif layout == "branch_graded":
        # one branch whose neighbouring compartments differ in length (1:3:1:3...): the off-diagonal couplings of a row differ
        m = jx.Branch([comp] * n)
        lens = np.tile([1.0, 3.0], n // 2 + 1)[:n]
        lens = lens * L / lens.sum()
    else:
        if layout == "cell_equal":
            n1, n2, L1 = n // 2, n - n // 2, L * (n // 2) / n
        else:
            # different compartment lengths on the two sides of the branch point; both sides are refined together
            # (n/2 compartments each), so the ladder reaches its asymptotic regime: with n//4 vs 3n/4 compartments and a long
            # first part the coarse side stayed pre-asymptotic up to n=64 and the order window fired on correct code
            L1 = L * case["split"]
            n1 = n // 2
            n2 = n - n1
        L2 = L - L1
        m = jx.Cell([jx.Branch([comp] * n1), jx.Branch([comp] * n2)], parents=[-1, 0])
        lens = np.concatenate([np.full(n1, L1 / n1), np.full(n2, L2 / n2)])
    m.insert(Leak())
    m.set("radius", case["r"])
    m.set("length", lens)
    m.set("axial_resistivity", case["ra"])
    m.set("capacitance", case["cm"])
    m.set("Leak_gLeak", case["g"])
    m.set("Leak_eLeak", case["E"])
    m.set("v", case["E"])
    m.record("v", verbose=False)
    edges = np.concatenate([[0], np.cumsum(lens)])
    return m, (edges[:-1] + edges[1:]) / 2, lens


def orders(errs):
    return [float(np.log2(errs[i] / errs[i + 1])) if errs[i + 1] > 0 and errs[i] > 0 else float("nan") for i in range(len(errs) - 1)]


def run_case(case, rec):
    import jax.numpy as jnp
    import jaxley as jx
    from jxmon.core import Refused

    r, ra, g, cm, L, E = (case[k] for k in ("r", "ra", "g", "cm", "L", "E"))
    lam = np.sqrt(r * 1e-4 / (2 * ra * g)) * 1e4  # um
    rinf = ra * (lam * 1e-4) / (np.pi * (r * 1e-4) ** 2)  # Ohm
    tau = cm / g * 1e-3  # ms
    if case["exp"] == "space":
        for backend in BACKENDS:
            errs, defl = [], 0.0
            try:
                for k in range(5):
                    n = 4 * 2**k
                    m, x, lens = build_cable(case, n, case["layout"])
                    cur = np.zeros((n, 1))
                    cur[0, 0] = case["I"]
                    m.stimulate(jnp.asarray(cur), verbose=False)
                    v = np.asarray(rec.call("space_order", jx.integrate, m, delta_t=1e9, voltage_solver=backend,
                                            where=f"steady state {backend}"))[:, 1]
                    x0 = x[0]
                    ana = E + case["I"] * 1e-9 * rinf * np.cosh(np.minimum(x, x0) / lam) * np.cosh((L - np.maximum(x, x0)) / lam) / np.sinh(L / lam) * 1e3
                    errs.append(float(np.max(np.abs(v - ana))))
                    defl = float(np.max(np.abs(ana - E)))
            except Refused:
                continue
            o = orders(errs)
            # asymptotic part of the ladder = its two finest refinements (coarser levels of some geometries are still
            # pre-asymptotic: observed orders 1.42, 1.59, 1.81, 1.91 on a correct tree)
            ok = all(1.7 <= q <= 2.3 for q in o[-2:]) and 1.8 <= o[-1] <= 2.2 and errs[-1] <= 2e-3 * defl
            if case["layout"] == "branch_graded":
                # no order window on a non-uniform grid (the local truncation error is first order there); the solution must
                # still converge to the cable's steady state
                ok = errs[-1] <= 5e-3 * defl and errs[-1] < errs[0]
            rec.check("space_order", ok, layout=case["layout"], backend=backend, errors_mV=errs, orders=o, deflection_mV=defl,
                      L_over_lambda=L / lam, geometry={k2: case[k2] for k2 in ("r", "ra", "g", "cm", "L", "split")})
            rec.sig(f"space|{case['layout']}|{backend}|{case['gid']}")
            # absolute accuracy: input resistance at the source, finest level
            rin_sim = (v[0] - E) / case["I"]  # mV/nA = MOhm
            x0 = x[0]
            rin_ana = rinf * np.cosh(x0 / lam) * np.cosh((L - x0) / lam) / np.sinh(L / lam) * 1e-6
            rec.check("abs_accuracy", abs(rin_sim - rin_ana) <= 2e-3 * rin_ana, what="input resistance (MOhm)", got=float(rin_sim),
                      want=float(rin_ana), backend=backend, layout=case["layout"])
        return
    if case["exp"] == "time_rc":
        # single compartment: V(t)=E+(V0-E)exp(-t/tau); steady state under constant current V=E+I/G
        area = 2 * np.pi * r * 10.0
        G = g * area * 1e-2  # uS
        for scheme in ("bwd_euler", "crank_nicolson", "fwd_euler"):
            backend = BACKENDS[(case["backend_rot"] + len(scheme)) % 2]  # fwd_euler has no jax.sparse path
            errs = []
            T = 0.8 * tau
            try:
                for k in range(5):
                    N = 8 * 2**k
                    c = jx.Compartment()
                    from jaxley.channels import Leak
                    c.insert(Leak())
                    c.set("radius", r); c.set("length", 10.0); c.set("capacitance", cm)
                    c.set("Leak_gLeak", g); c.set("Leak_eLeak", E); c.set("v", E + case["A"])
                    c.record("v", verbose=False)
                    c.stimulate(jnp.zeros(N), verbose=False)
                    v = np.asarray(rec.call("time_order", jx.integrate, c, delta_t=T / N, solver=scheme, voltage_solver=backend,
                                            where=f"RC {scheme}"))[0, -1]
                    errs.append(abs(float(v) - (E + case["A"] * np.exp(-T / tau))))
            except Refused:
                continue
            o = orders(errs)
            lo, hi = (1.85, 2.15) if scheme == "crank_nicolson" else (0.85, 1.15)
            bound = case["A"] * (2e-5 if scheme == "crank_nicolson" else 5e-3)
            rec.check("time_order", all(lo <= q <= hi for q in o[1:]) and errs[-1] <= bound, experiment="rc", scheme=scheme, backend=backend,
                      errors_mV=errs, orders=o, tau_ms=tau)
            rec.sig(f"time_rc|{scheme}|{backend}|{case['gid']}")
        # steady state under constant current (one huge backward-Euler step and 40 moderate CN steps agree with E+I/G)
        c = jx.Compartment()
        from jaxley.channels import Leak
        c.insert(Leak())
        c.set("radius", r); c.set("length", 10.0); c.set("capacitance", cm); c.set("Leak_gLeak", g); c.set("Leak_eLeak", E)
        c.record("v", verbose=False)
        Iinj = case["I"] * 0.05
        c.stimulate(jnp.full((1, 1), Iinj), verbose=False)
        try:
            v = float(np.asarray(rec.call("abs_accuracy", jx.integrate, c, delta_t=1e9, where="steady current"))[0, 1])
        except Refused:
            return
        want = E + Iinj / G
        rec.check("abs_accuracy", abs(v - want) <= 1e-6 * (1 + abs(want - E)), what="steady state under constant current (mV)",
                  got=v, want=want, G_uS=G)
        return
    # eigenmode relaxation of the semi-discrete sealed cable (exact closed form), dt ladder, all schemes
    n = 8
    dx = L / n
    area = 2 * np.pi * r * dx
    C = cm * area * 1e-5
    G = g * area * 1e-2
    gax = 1e6 / (ra * dx / (np.pi * r**2) * 1e4)
    mth = case["mode"]
    mu = -(G + 4 * gax * np.sin(mth * np.pi / (2 * n)) ** 2) / C  # 1/ms
    i = np.arange(n)
    shape = np.cos(mth * np.pi * (i + 0.5) / n)
    T = 0.7 / abs(mu)
    for scheme in ("bwd_euler", "crank_nicolson", "fwd_euler"):
        for backend in BACKENDS:
            if scheme == "fwd_euler" and (backend == "jax.sparse" or case["layout"] != "branch"):
                continue
            errs = []
            try:
                for k in range(5):
                    N = 8 * 2**k
                    m, x, lens = build_cable(case, n, "branch" if case["layout"] in ("cell_unequal", "branch_graded") else case["layout"])
                    m.set("v", E + case["A"] * shape)
                    m.stimulate(jnp.zeros(N), verbose=False)
                    v = np.asarray(rec.call("time_order", jx.integrate, m, delta_t=T / N, solver=scheme, voltage_solver=backend,
                                            where=f"eigenmode {scheme}/{backend}"))[:, -1]
                    ana = E + case["A"] * shape * np.exp(mu * T)
                    errs.append(float(np.max(np.abs(v - ana))))
            except Refused:
                continue
            o = orders(errs)
            lo, hi = (1.85, 2.15) if scheme == "crank_nicolson" else (0.85, 1.15)
            bound = case["A"] * (2e-5 if scheme == "crank_nicolson" else 5e-3)
            rec.check("time_order", all(lo <= q <= hi for q in o[1:]) and errs[-1] <= bound, experiment="eigenmode", scheme=scheme,
                      backend=backend, layout=case["layout"], mode=mth, errors_mV=errs, orders=o, mu_per_ms=mu)
            rec.sig(f"time|{scheme}|{backend}|{case['layout']}|{case['gid']}")


def classify(case, v):
    return None
