"""C19 - any editing history leaves a consistent module that simulates its tables.

After every accepted operation of a history the table invariants R6 are evaluated (quiescent-point
hook, attached from the harness to the public mutators' return); insert..delete_channel pairs must
restore the earlier snapshot; a refused operation must leave all tables unchanged; at the end
integrate() is compared with the reference simulator R3 rebuilt from the tables alone.
Histories: exhaustive to depth 2 (quick) / depth 3 on the cell and 2 on the network (thorough) over a concrete alphabet of 23 operations on
two fixed irregular modules, random histories of length 4-25 beyond that.
"""
import itertools

import numpy as np

from jxmon.gen import trees

PID = 19
RULE = ("alphabet of 23 concrete operations (insert K/Km/Na on views, delete_channel K/Km on views, set, record, delete_recordings, "
        "stimulate, clamp, delete_stimuli, delete_clamps, make_trainable, delete_trainables, add_to_group, init_states, set_ncomp, connect) "
        "on a 4-branch cell [2,1,3,2] and a 2-cell network; exhaustive to depth 2 (quick) / depth 3 on the cell, 2 on the network (thorough); a simulate-then-edit family (record, integrate, one structural edit, integrate again: nothing derived during a run may survive the edit); plus random histories of "
        "length 4-25 over a wider alphabet (7 channels incl. the pairs sharing a column K+Km, Na+K, CaL+CaT; three synapse types; "
        "channel-state recordings and clamps; random views). distinct = (module, operation sequence); all non-trivial")
ASSUMPTIONS = [
    "R6 invariants as listed in DESIGN.md section 4 C19 (I1-I8)",
    "R3 (jxmon/oracles/refsim.py) encodes jaxley's documented operator splitting; scheme-ambiguity set for pre-voltage dependent synaptic currents",
    "a refused operation is fine if it leaves all tables unchanged",
]
MECHANISMS = ["jaxley.modules.base:Module.insert", "jaxley.modules.base:Module.delete_channel", "jaxley.modules.base:Module.record",
              "jaxley.modules.base:Module._external_input", "jaxley.modules.base:Module.add_to_group", "jaxley.modules.base:Module.make_trainable",
              "jaxley.modules.base:Module.delete_trainables", "jaxley.modules.base:Module.delete_clamps", "jaxley.modules.base:Module.delete_recordings",
              "jaxley.modules.base:Module.to_jax", "jaxley.modules.base:Module.get_all_parameters", "jaxley.modules.base:Module.init_states"]
MECHANISMS_REQUIRED = MECHANISMS[:9]
REQUIRED = {"quick": {"R6": 1200, "undo": 60, "refsim_equiv": 300},
            "thorough": {"R6": 13016, "undo": 81, "refsim_equiv": 5318}}
WALL_BUDGET = {"quick": 1500, "thorough": 5 * 3600}

MODULES = {
    "cell": {"kind": "cell", "cells": [{"parents": [-1, 0, 0, 1], "ncomp": [2, 1, 3, 2]}]},
    "net": {"kind": "network", "cells": [{"parents": [-1, 0], "ncomp": [2, 1]}, {"parents": [-1], "ncomp": [2]}]},
}
VIEWS = {"cell": {"all": None, "b0": [0, 1], "b1": [2], "c0": [0], "last": [7], "b2": [3, 4, 5], "e2": None},
         "net": {"all": None, "b0": [0, 1], "b1": [2], "c0": [0], "last": [4], "b2": [3, 4], "e2": None}}
ALPHABET = [
    ("insert", "K", "all"), ("insert", "Km", "b0"), ("insert", "Na", "b1"), ("delete_channel", "K", "all"), ("delete_channel", "K", "b0"),
    ("delete_channel", "Km", "b0"), ("set", "radius", "last"), ("record", "v", "c0"), ("delete_recordings", "", "all"), ("stimulate", "", "c0"),
    ("clamp", "v", "last"), ("delete_stimuli", "", "all"), ("delete_clamps", "", "all"), ("make_trainable", "radius", "b0"),
    ("delete_trainables", "", "all"), ("add_to_group", "g", "b1"), ("init_states", "", "all"), ("set_ncomp", "3", "b0"), ("connect", "Iono", "c0>last"),
    ("record", "IonotropicSynapse_s", "e2"), ("clamp", "IonotropicSynapse_s", "e2"),
    ("set_ncomp", "1", "b0"), ("add_to_group", "h", "last"),
]
CHS = ["HH", "Na", "K", "Km", "CaL", "CaT", "Leak"]


def cases(seed, tier):
    depth = 2 if tier == "quick" else 3
    out = []
    for mod in ("cell", "net"):
        # thorough: all histories of length 3 on the cell, of length 2 on the network (bounded by the time a run may take)
        hs = list(itertools.product(range(len(ALPHABET)), repeat=depth if mod == "cell" else 2))
        chunk = 24
        for i in range(0, len(hs), chunk):
            out.append({"module": mod, "histories": [[list(ALPHABET[j]) for j in h] for h in hs[i:i + chunk]], "kind": f"exhaustive{len(hs[0])}"})
    # undo family: a channel B is inserted next to a channel A that shares a column with it, a few neutral operations follow,
    # then B is deleted on the same view: tables, registry and current names must be exactly as before the insert
    pairs = [("K", "Km"), ("Km", "K"), ("Na", "K"), ("K", "Na"), ("CaL", "CaT"), ("CaT", "CaL"), ("HH", "Leak"), ("Leak", "Na")]
    neutral = [["record", "v", "c0"], ["stimulate", "", "c0"], ["add_to_group", "g", "b1"], ["delete_recordings", "", "all"], ["clamp", "v", "last"]]
    for mod in ("cell", "net"):
        hs = []
        for (a, b) in pairs:
            for va, vb in (("all", "b0"), ("b0", "b0"), ("b0", "all"), ("b2", "b0"), ("all", "all")):
                hs.append([["insert", a, va], ["insert", b, vb]] + [neutral[(len(hs) + i) % len(neutral)] for i in range(len(hs) % 3)] + [["delete_channel", b, vb]])
        for i in range(0, len(hs), 10):
            out.append({"module": mod, "histories": hs[i:i + 10], "kind": "undo"})
    # simulate-then-edit family: record, simulate, one structural edit, (simulate), final comparison with the reference
    edits = [["insert", "HH", "all"], ["insert", "K", "b1"], ["insert", "HH", "b2"], ["delete_channel", "HH", "b0"], ["delete_channel", "HH", "c0"],
             ["set", "radius", "last"], ["set", "capacitance", "b0"], ["init_states", "", "all"], ["insert", "Na", "last"], ["set", "length", "b2"]]
    for mod in ("cell", "net"):
        hs = []
        for i, e in enumerate(edits):
            pre = [["insert", "K", "b0"]] if i % 2 else []
            hs.append(pre + [["record", "v", "c0"], ["record", "v", "last"], ["simulate", "", "all"], e] + ([["simulate", "", "all"], edits[(i + 3) % len(edits)]] if i % 3 == 0 else []))
        hs.append([["simulate", "", "all"], ["delete_recordings", "", "all"], ["set_ncomp", "3", "b0"]] if mod == "cell" else [["record", "v", "c0"], ["simulate", "", "all"], ["connect", "Iono", "c0>last"]])
        hs[-1] = ([["record", "v", "c0"]] + hs[-1]) if mod == "cell" else hs[-1]
        for i in range(0, len(hs), 6):
            out.append({"module": mod, "histories": hs[i:i + 6], "kind": "simulate_then_edit"})
    # references to a channel that is deleted afterwards (F28) and partial deletion of shared trainables through a view (F29)
    for mod in ("cell", "net"):
        hs = [[["record", "HH_m", "c0"], ["delete_channel", "HH", "b0"]], [["clamp", "HH_m", "c0"], ["delete_channel", "HH", "b0"]],
              [["make_trainable", "HH_gNa", "c0"], ["delete_channel", "HH", "b0"]], [["record", "i_HH", "c0"], ["delete_channel", "HH", "c0"], ["delete_channel", "HH", "b0"]],
              [["make_trainable", "radius", "all"], ["delete_trainables", "", "last"]], [["insert", "K", "all"], ["make_trainable", "eK", "all"], ["make_trainable", "K_gK", "b0"], ["delete_trainables", "", "b2"]],
              [["make_trainable", "radius", "b0"], ["make_trainable", "v", "all"], ["delete_trainables", "", "c0"], ["delete_trainables", "", "last"]]]
        out.append({"module": mod, "histories": hs, "kind": "dangling"})
    nrand = 48 if tier == "quick" else 500
    for k in range(nrand):
        rng = trees.rng_for(seed, PID, k)
        mod = ["cell", "net"][k % 2]
        views = [v for v in VIEWS[mod] if v != "e2"]
        n = int(rng.integers(4, 26))
        h = []
        pair = [["K", "Km"], ["Na", "K"], ["CaL", "CaT"], ["HH", "Leak"]][int(rng.integers(0, 4))]
        for _ in range(n):
            u = rng.random()
            ch = str(rng.choice(pair)) if rng.random() < 0.7 else str(rng.choice(CHS))
            v = str(rng.choice(views))
            if rng.random() < 0.07:
                h.append(["simulate", "", "all"])
            if u < 0.22:
                h.append(["insert", ch, v])
            elif u < 0.38:
                h.append(["delete_channel", ch, v])
            elif u < 0.46:
                h.append(["set", str(rng.choice(["radius", "length", "v", "eK", "vt", "eCa", "capacitance"])), v])
            elif u < 0.54:
                h.append(["record", str(rng.choice(["v", "v", "K_n", "Km_p", "HH_m", "i_K", "i_HH", "IonotropicSynapse_s"])), v])
            elif u < 0.58:
                h.append(["delete_recordings", "", str(rng.choice(["all", v]))])
            elif u < 0.65:
                h.append(["stimulate", "", v])
            elif u < 0.71:
                h.append(["clamp", str(rng.choice(["v", "K_n", "HH_m", "IonotropicSynapse_s"])), v])
            elif u < 0.75:
                h.append([str(rng.choice(["delete_stimuli", "delete_clamps"])), "", str(rng.choice(["all", v]))])
            elif u < 0.81:
                h.append(["make_trainable", str(rng.choice(["radius", "K_gK", "eK", "HH_gNa", "v", "IonotropicSynapse_gS"])), v])
            elif u < 0.84:
                h.append(["delete_trainables", "", str(rng.choice(["all", v]))])
            elif u < 0.89:
                h.append(["add_to_group", str(rng.choice(["g", "h"])), v])
            elif u < 0.93:
                h.append(["init_states", "", "all"])
            elif u < 0.96:
                h.append(["set_ncomp", str(int(rng.integers(1, 5))), str(rng.choice(["b0", "b1", "b2"]))])
            else:
                h.append(["connect", str(rng.choice(["Iono", "Test", "Tanh"])), f"{rng.choice(views[1:])}>{rng.choice(views[1:])}"])
        out.append({"module": mod, "histories": [h], "kind": "random"})
    return out


# ------------------------------------------------------------------ worker side
def fresh(modname):
    import jaxley as jx
    from jaxley.channels import HH
    from jxmon import build
    m = build.build_structure(MODULES[modname])
    n = len(m.nodes)
    m.set("radius", 1.0 + 0.1 * np.arange(n))
    m.set("length", 10.0 + np.arange(n))
    m.set("v", -70.0 + 0.5 * np.arange(n))
    # branch b0 is uniform and carries every channel of the fresh module, so that set_ncomp may refine or coarsen it (a branch with
    # per-compartment geometry, with one compartment, or without one of the module's channels is refused by design)
    b0 = m.select(nodes=np.asarray(VIEWS[modname]["b0"]))
    b0.set("radius", 1.35); b0.set("length", 13.0)
    m.branch(0).insert(HH()) if modname == "cell" else m.cell(0).insert(HH())
    if modname == "net":
        # synapse types interleaved in the edge table: Iono, Tanh, Iono, Iono (edge 2 has rank 1 within its type)
        from jaxley.connect import connect
        from jaxley.synapses import IonotropicSynapse, TanhRateSynapse
        for a, b, S in ((0, 3, IonotropicSynapse), (1, 4, TanhRateSynapse), (2, 3, IonotropicSynapse), (0, 4, IonotropicSynapse)):
            connect(m.select(nodes=[a]), m.select(nodes=[b]), S())
        for e in range(4):
            col = "IonotropicSynapse_s" if e != 1 else None
            if col:
                m.select(edges=[e]).set(col, 0.1 + 0.2 * e)
            m.select(edges=[e]).set("IonotropicSynapse_gS" if e != 1 else "TanhRateSynapse_gS", 1e-3 * (1 + e))
    return m


def view_of(m, modname, vname):
    rows = VIEWS[modname][vname]
    if vname in ("b0", "b1", "b2") and modname == "cell":
        # a branch view follows the branch through set_ncomp (its rows change); the other views are fixed row sets
        return m.branch(int(vname[1]))
    return m if rows is None else m.select(nodes=np.asarray(rows))


def snapshot(m):
    return {
        "nodes": m.nodes.copy(deep=True), "edges": m.edges.copy(deep=True), "recordings": m.recordings.copy(deep=True),
        "externals": {k: np.array(v) for k, v in m.externals.items()}, "external_inds": {k: np.array(v) for k, v in m.external_inds.items()},
        "groups": {k: np.array(v) for k, v in m.groups.items()},
        "trainable_params": [{k: np.array(v) for k, v in p.items()} for p in m.trainable_params],
        "indices_set_by_trainables": [np.array(i) for i in m.indices_set_by_trainables],
        "channels": [c._name for c in m.channels], "currents": sorted(m.membrane_current_names), "synapses": list(m.synapse_names),
        "ncomp_per_branch": [int(x) for x in m.ncomp_per_branch],
    }


def snap_equal(a, b, ignore_col_order=True):
    bad = []
    for k in ("nodes", "edges", "recordings"):
        x, y = a[k], b[k]
        if set(x.columns) != set(y.columns) or len(x) != len(y):
            bad.append(f"{k}: columns/rows {sorted(set(x.columns) ^ set(y.columns))}")
            continue
        for c in x.columns:
            if c == "controlled_by_param":
                continue
            u, w = x[c].to_numpy(), y[c].to_numpy()
            try:
                eq = np.array_equal(u.astype(float), w.astype(float), equal_nan=True)
            except (TypeError, ValueError):
                eq = list(u) == list(w)
            if not eq:
                bad.append(f"{k}.{c}")
    for k in ("externals", "external_inds", "groups"):
        if set(a[k]) != set(b[k]) or any(a[k][q].shape != b[k][q].shape or not np.array_equal(a[k][q], b[k][q], equal_nan=True) for q in a[k]):
            bad.append(k)
    if len(a["trainable_params"]) != len(b["trainable_params"]):
        bad.append("trainable_params")
    for k in ("channels", "currents", "synapses", "ncomp_per_branch"):
        if a[k] != b[k]:
            bad.append(f"{k}: {a[k]} -> {b[k]}")
    return bad


def r6(m):
    """-> list of (invariant id, message) violated by the module's public tables"""
    import pandas as pd
    bad = []
    nd, ed = m.nodes, m.edges
    n = len(nd)
    # I1
    if list(nd.index) != list(range(n)) or list(nd["global_comp_index"]) != list(range(n)):
        bad.append(("I1", "node index / global_comp_index not contiguous"))
    counts = nd.groupby("global_branch_index").size().tolist()
    if counts != [int(x) for x in m.ncomp_per_branch] or int(m.cumsum_ncomp[-1]) != n or sorted(nd["global_branch_index"].unique()) != list(range(len(counts))):
        bad.append(("I1", f"ncomp_per_branch {list(m.ncomp_per_branch)} / cumsum_ncomp disagree with the table {counts}"))
    # I2
    names = [c._name for c in m.channels]
    if len(set(names)) != len(names):
        bad.append(("I2", f"channel registered twice {names}"))
    owners = {}
    for c in m.channels:
        if c._name not in nd.columns:
            bad.append(("I2", f"flag column {c._name} missing"))
            continue
        for col in list(c.channel_params) + list(c.channel_states):
            owners.setdefault(col, []).append(c._name)
    for col, own in owners.items():
        if col not in nd.columns:
            bad.append(("I2", f"column {col} missing although {own} own(s) it"))
            continue
        present = np.zeros(n, bool)
        for o in own:
            if o in nd.columns:
                present |= nd[o].to_numpy().astype(bool)
        notnan = ~pd.isna(nd[col]).to_numpy()
        if np.any(present & ~notnan):
            bad.append(("I2", f"{col} is NaN in rows {np.where(present & ~notnan)[0].tolist()[:6]} where {own} is present"))
        if np.any(~present & notnan):
            bad.append(("I2", f"{col} has a value in rows {np.where(~present & notnan)[0].tolist()[:6]} where no owner ({own}) is present"))
    if sorted(set(m.membrane_current_names)) != sorted({c.current_name for c in m.channels}) or len(set(m.membrane_current_names)) != len(m.membrane_current_names):
        bad.append(("I2", f"membrane_current_names {m.membrane_current_names} != currents of registered channels {sorted({c.current_name for c in m.channels})}"))
    # I3
    comp_states, edge_states = m._get_state_names()
    if not m.recordings.empty:
        for i, s in zip(m.recordings["rec_index"], m.recordings["state"]):
            if s in comp_states:
                if int(i) not in nd.index:
                    bad.append(("I3", f"recording of {s} at non-existing compartment {i}"))
            elif s in edge_states:
                if int(i) not in ed.index:
                    bad.append(("I3", f"recording of {s} at non-existing edge {i}"))
            else:
                bad.append(("I3", f"recording of unknown state {s}"))
        if m.recordings.duplicated().any():
            bad.append(("I3", "duplicate recordings"))
    # I4
    if set(m.externals) != set(m.external_inds):
        bad.append(("I4", "externals and external_inds have different keys"))
    for k, v in m.externals.items():
        inds = np.asarray(m.external_inds.get(k, []))
        if np.asarray(v).shape[0] != len(inds):
            bad.append(("I4", f"externals[{k}] has {np.asarray(v).shape[0]} rows but external_inds has {len(inds)}"))
        pool = ed.index if k in edge_states else nd.index
        if k not in comp_states + edge_states:
            bad.append(("I4", f"input for unknown state {k}"))
        elif not set(int(i) for i in inds) <= set(pool):
            bad.append(("I4", f"external_inds[{k}]={inds.tolist()} refer to non-existing rows"))
    # I5
    for g, rows in m.groups.items():
        if not set(int(r) for r in rows) <= set(nd.index):
            bad.append(("I5", f"group {g} refers to non-existing rows"))
    # I6
    if len(m.trainable_params) != len(m.indices_set_by_trainables):
        bad.append(("I6", "trainable_params and indices_set_by_trainables differ in length"))
    tot = 0
    for p, inds in zip(m.trainable_params, m.indices_set_by_trainables):
        (key, val), = p.items()
        inds = np.asarray(inds)
        tot += len(np.asarray(val))
        if inds.ndim != 2 or inds.shape[0] != len(np.asarray(val)):
            bad.append(("I6", f"trainable {key}: {len(np.asarray(val))} values for index array {inds.shape}"))
        tab = nd if key in nd.columns else ed if key in ed.columns else None
        if tab is None:
            bad.append(("I6", f"trainable {key} refers to a column that no longer exists"))
        elif not set(int(i) for i in inds.ravel()) <= set(tab.index):
            bad.append(("I6", f"trainable {key} refers to non-existing rows {sorted(set(int(i) for i in inds.ravel()) - set(tab.index))[:5]}"))
    if tot != int(m.num_trainable_params):
        bad.append(("I6", f"num_trainable_params={m.num_trainable_params} but {tot} values stored"))
    # I7
    if len(ed):
        if list(ed.index) != list(range(len(ed))) or list(ed["global_edge_index"]) != list(range(len(ed))):
            bad.append(("I7", "edge index not contiguous"))
        for t, ti in zip(ed["type"], ed["type_ind"]):
            if t not in m.synapse_names or m.synapse_names.index(t) != int(ti):
                bad.append(("I7", f"edge type {t}/{ti} not registered consistently {m.synapse_names}"))
                break
        for s in m.synapses:
            own = (ed["type"] == s._name).to_numpy()
            for col in list(s.synapse_params) + list(s.synapse_states):
                if col not in ed.columns:
                    bad.append(("I7", f"edge column {col} missing"))
                    continue
                nn = ~pd.isna(ed[col]).to_numpy()
                if np.any(own != nn):
                    bad.append(("I7", f"{col} non-NaN pattern does not match edges of type {s._name}"))
        if not set(ed["pre_global_comp_index"].astype(int)) | set(ed["post_global_comp_index"].astype(int)) <= set(nd["global_comp_index"]):
            bad.append(("I7", "edge endpoints refer to non-existing compartments"))
    return bad


FRAME = {
    # operation -> parts of the module it may change (everything else must be identical before/after)
    "insert": {"nodes", "channels", "currents"}, "delete_channel": {"nodes", "channels", "currents"}, "set": {"nodes", "edges"},
    "init_states": {"nodes"}, "record": {"recordings"}, "delete_recordings": {"recordings"}, "stimulate": {"externals:i"},
    "clamp": {"externals:clamp"}, "delete_stimuli": {"externals:i"}, "delete_clamps": {"externals:clamp"},
    "make_trainable": {"trainable_params"}, "delete_trainables": {"trainable_params"}, "add_to_group": {"groups"},
    "simulate": set(), "connect": {"edges", "synapses"}, "set_ncomp": {"nodes", "groups", "ncomp_per_branch"},
}


def frame_violation(op, a, b):
    """which parts of the module changed although the operation is not about them"""
    allowed = FRAME.get(op[0], set())
    changed = set()
    for k in ("nodes", "edges", "recordings"):
        x, y = a[k], b[k]
        same = list(x.columns) == list(y.columns) and len(x) == len(y)
        if same:
            for c in x.columns:
                if c == "controlled_by_param":
                    continue
                u, w = x[c].to_numpy(), y[c].to_numpy()
                try:
                    same = same and np.array_equal(u.astype(float), w.astype(float), equal_nan=True)
                except (TypeError, ValueError):
                    same = same and list(u) == list(w)
        else:
            same = set(x.columns) - {"controlled_by_param"} == set(y.columns) - {"controlled_by_param"} and len(x) == len(y) and False
        if not same:
            changed.add(k)
    for key in set(a["externals"]) | set(b["externals"]):
        x, y = a["externals"].get(key), b["externals"].get(key)
        xi, yi = a["external_inds"].get(key), b["external_inds"].get(key)
        if x is None or y is None or x.shape != y.shape or not np.array_equal(x, y, equal_nan=True) or not np.array_equal(xi, yi):
            changed.add("externals:i" if key == "i" else "externals:clamp")
    if set(a["groups"]) != set(b["groups"]) or any(not np.array_equal(a["groups"][g], b["groups"][g]) for g in a["groups"]):
        changed.add("groups")
    if len(a["trainable_params"]) != len(b["trainable_params"]) or len(a["indices_set_by_trainables"]) != len(b["indices_set_by_trainables"]):
        changed.add("trainable_params")
    for k in ("channels", "currents", "synapses", "ncomp_per_branch"):
        if a[k] != b[k]:
            changed.add(k)
    if op[0] == "set_ncomp" and "groups" in changed and set(a["groups"]) == set(b["groups"]):
        # row indices are renumbered, membership is not: unchanged branches keep their member compartments, the re-discretised
        # branch is in the group afterwards iff (part of) it was before
        def members(snap, g):
            nd = snap["nodes"]
            rows = [int(r) for r in snap["groups"][g]]
            if any(r < 0 or r >= len(nd) for r in rows):
                return None
            return {(int(nd["global_branch_index"].iloc[r]), int(nd["local_comp_index"].iloc[r])) for r in rows}
        same_nc = {i for i, (x, y) in enumerate(zip(a["ncomp_per_branch"], b["ncomp_per_branch"])) if x == y}
        for g in a["groups"]:
            ma, mb = members(a, g), members(b, g)
            if ma is None or mb is None:
                changed.add(f"groups[{g}]: rows outside .nodes")
                continue
            if {x for x in ma if x[0] in same_nc} != {x for x in mb if x[0] in same_nc}:
                changed.add(f"groups[{g}]: membership of branches that were not re-discretised")
            for br in set(range(len(a["ncomp_per_branch"]))) - same_nc:
                was = any(x[0] == br for x in ma)
                now = {x[1] for x in mb if x[0] == br}
                if (was and now != set(range(b["ncomp_per_branch"][br]))) or (not was and now):
                    changed.add(f"groups[{g}]: membership of the re-discretised branch {br}")
    return sorted(changed - allowed)


def apply(m, modname, op, rng):
    import jax.numpy as jnp
    import jaxley as jx
    import jaxley.channels as chm
    import jaxley.synapses as sym
    from jaxley.connect import connect
    kind, arg, vname = op
    if vname == "e2" and (modname != "net" or len(m.edges) < 3):
        raise AssertionError("no such edge")
    if kind == "connect":
        a, b = vname.split(">")
        if modname != "net":
            raise AssertionError("connect needs a network")
        pre, post = view_of(m, modname, a), view_of(m, modname, b)
        pre = pre.select(nodes=pre.nodes.index[:1].to_numpy()) if a != "all" else m.select(nodes=[0])
        post = post.select(nodes=post.nodes.index[-1:].to_numpy()) if b != "all" else m.select(nodes=[len(m.nodes) - 1])
        return connect(pre, post, {"Iono": sym.IonotropicSynapse, "Test": sym.TestSynapse, "Tanh": sym.TanhRateSynapse}[arg]())
    v = view_of(m, modname, vname)
    if kind == "insert":
        return v.insert(getattr(chm, arg)())
    if kind == "delete_channel":
        return v.delete_channel(getattr(chm, arg)())
    if kind == "set":
        return v.set(arg, float({"radius": 2.5, "length": 17.0, "v": -61.0, "eK": -85.0, "vt": -58.0, "eCa": 110.0, "capacitance": 1.3}.get(arg, 1.0)))
    if kind == "record":
        if arg.startswith(("IonotropicSynapse", "i_Iono")):
            v = m.select(edges=[2]) if vname == "e2" else m.select(edges=np.asarray(m.edges.index[:1]))
        return v.record(arg, verbose=False)
    if kind == "delete_recordings":
        return v.delete_recordings()
    if kind == "stimulate":
        return v.stimulate(jnp.asarray(np.full(6, 0.1)), verbose=False)
    if kind == "clamp":
        if arg.startswith("IonotropicSynapse"):
            v = m.select(edges=[2]) if vname == "e2" else m.select(edges=np.asarray(m.edges.index[:1]))
        val = -60.0 if arg == "v" else 0.3
        return v.clamp(arg, jnp.asarray(np.full(6, val)), verbose=False)
    if kind == "delete_stimuli":
        return v.delete_stimuli()
    if kind == "delete_clamps":
        return v.delete_clamps()
    if kind == "make_trainable":
        if arg.startswith("IonotropicSynapse"):
            return m.IonotropicSynapse.make_trainable(arg, verbose=False)
        return v.make_trainable(arg, verbose=False)
    if kind == "delete_trainables":
        return v.delete_trainables()
    if kind == "add_to_group":
        return v.add_to_group(arg)
    if kind == "init_states":
        return m.init_states()
    if kind == "simulate":
        # a run in the middle of a history: nothing it derives may survive into the behaviour after later edits
        if m.recordings.empty:
            raise AssertionError("nothing recorded")
        kw = {} if m.externals else {"t_max": 0.025 * 3 + 1e-9}
        return jx.integrate(m, params=m.get_parameters(), delta_t=0.025, voltage_solver="jax.sparse" if modname == "net" else "jaxley.stone", **kw)
    if kind == "set_ncomp":
        return v.set_ncomp(int(arg))
    raise ValueError(kind)


def to_model(m, modname):
    """plain-data description of the module's public tables for R3"""
    nd, ed = m.nodes, m.edges
    st = MODULES[modname]
    off, cells = 0, []
    ncpb = [int(x) for x in m.ncomp_per_branch]
    for c in st["cells"]:
        nb = len(c["parents"])
        cells.append({"parents": c["parents"], "ncomp": ncpb[off:off + nb]})
        off += nb
    nodes = {c: nd[c].to_numpy().copy() for c in nd.columns}
    edges = {c: ed[c].to_numpy().copy() for c in ed.columns} if len(ed) else {}
    # trainable values passed as `params` override the tables for the rows they are shared by (C10 checks that scatter)
    for p, inds in zip(m.trainable_params, m.indices_set_by_trainables):
        (key, vals), = p.items()
        tab = nodes if key in nodes else edges
        for g, row in enumerate(np.asarray(inds)):
            tab[key][np.asarray(row, dtype=int)] = float(np.asarray(vals)[g])
    return {
        "cells": cells,
        "nodes": nodes,
        "channels": [(type(c).__name__, c._name) for c in m.channels],
        "edges": edges,
        "recordings": [(s, int(i)) for i, s in zip(m.recordings["rec_index"], m.recordings["state"])] if not m.recordings.empty else [],
        "externals": {k: np.asarray(v).T for k, v in m.externals.items()},
        "external_inds": {k: [int(i) for i in np.asarray(v)] for k, v in m.external_inds.items()},
    }


def run_history(rec, modname, hist, kind):
    import jaxley as jx
    from jxmon.core import Refused
    from jxmon.oracles import refsim
    m = fresh(modname)
    rng = np.random.default_rng(len(hist))
    tag = dict(module=modname, history=hist, kind=kind)
    pending_undo = {}  # (channel, view) -> snapshot before the insert, valid while nothing else touched that channel
    for step, op in enumerate(hist):
        before = snapshot(m)
        try:
            apply(m, modname, op, rng)
            accepted = True
        except (AssertionError, ValueError, KeyError, TypeError, IndexError, NotImplementedError, AttributeError) as e:
            accepted = False
            rec.refused("R6", e, where=f"{op[0]}({op[1]})")
            diff = snap_equal(before, snapshot(m))
            if diff:
                rec.info.setdefault("refusal_with_side_effects", []).append({"op": op, "changed": diff[:5], "error": repr(e)[:120]})
                return  # the module is in an unknown state: stop this history (reported in evidence, not judged)
            continue
        fr = frame_violation(op, before, snapshot(m))
        if fr:
            rec.violated("R6", step=step, op=op, invariants=["frame"], messages=[f"{op[0]} changed {fr} (outside what the operation is about)"], **tag)
            return
        viol = r6(m)
        if viol:
            ids = sorted({v[0] for v in viol})
            rec.violated("R6", step=step, op=op, invariants=ids, messages=[v[1] for v in viol][:4], **tag)
            return
        rec.held("R6")
        # I8 undo bookkeeping
        if op[0] == "insert":
            already = op[1] in before["channels"]
            pending_undo = {k: v for k, v in pending_undo.items() if k[0] != op[1]}
            if not already:
                pending_undo[(op[1], op[2])] = before
        elif op[0] == "delete_channel":
            key = (op[1], op[2])
            if key in pending_undo:
                base = pending_undo.pop(key)
                # compare only what channel bookkeeping owns: nodes table, channel registry, current names
                now = snapshot(m)
                base2 = dict(now)
                for k2 in ("nodes", "channels", "currents"):
                    base2[k2] = base[k2]
                # operations in between may legitimately have changed other things in nodes (set, init_states...): only judge when the
                # history between insert and delete contains no other node-writing op
                between = hist[[i for i, o in enumerate(hist[:step]) if o[0] == "insert" and o[1] == op[1] and o[2] == op[2]][-1] + 1:step]
                if all(o[0] in ("record", "delete_recordings", "stimulate", "clamp", "delete_stimuli", "delete_clamps", "add_to_group") for o in between):
                    diff = snap_equal(base2, now)
                    rec.check("undo", not diff, what="insert ... delete_channel on the same view did not restore the earlier tables", channel=op[1], view=op[2],
                              differing=diff[:6], **tag)
            pending_undo = {k: v for k, v in pending_undo.items() if k[0] != op[1]}
        elif op[0] in ("set", "init_states", "set_ncomp", "make_trainable"):
            pending_undo = {}
    # ---- final: integrate == refsim(tables)
    try:
        if m.recordings.empty:
            m.record("v", verbose=False)
        model = to_model(m, modname)
        T = 6
        kw = {} if m.externals else {"t_max": 0.025 * (T - 1) + 1e-9}
        backend = "jax.sparse" if modname == "net" else "jaxley.stone"
        out = np.asarray(rec.call("refsim_equiv", jx.integrate, m, params=m.get_parameters(), delta_t=0.025, voltage_solver=backend, where="final integrate", **kw))
    except Refused as r:
        # the tables passed R6 after every operation: integrate must be able to simulate them
        rec.counts["refsim_equiv"]["refused"] -= 1
        rec.violated("refsim_equiv", what="integrate raised on a module whose tables are consistent", error=repr(r.exc)[:200], **tag)
        return
    nsteps = out.shape[1] - 1
    devs = {}
    try:
        for var in ("joint", "post_only"):
            ref = refsim.run(model, nsteps, 0.025, "bwd_euler", var)
            if ref.shape == out.shape:
                fin = np.isfinite(out) & np.isfinite(ref)
                devs[var] = float(np.max(np.abs(out - ref)[fin] / (1 + np.abs(ref[fin])))) if fin.any() else 0.0
                n_finite = int(fin.sum())
            else:
                devs[var] = float("inf")
            nan_mismatch = not np.array_equal(np.isnan(out), np.isnan(ref)) if ref.shape == out.shape else True
    except Exception as e:  # noqa: BLE001 - the reference cannot interpret the tables: not a verdict
        rec.skipped("refsim_equiv", f"reference simulator could not interpret the tables: {type(e).__name__}: {str(e)[:80]}")
        return
    best = min(devs.values())
    if ref.shape == out.shape and n_finite == 0 and not nan_mismatch:
        rec.skipped("refsim_equiv", "every recorded value is NaN in both (states of channels that are absent where they are recorded)")
        return
    j = None
    rec.check("refsim_equiv", best <= 1e-6 and not nan_mismatch, what="integrate differs from the reference simulation of the displayed tables",
              deviations=devs, nan_mismatch=bool(nan_mismatch), recordings=model["recordings"][:8], **tag)


def run_case(case, rec):
    for n, h in enumerate(case["histories"]):
        if n and n % 6 == 0:
            # every history compiles its own programs: bound the JIT code memory of the worker (thorough tier: 'LLVM ERROR: Unable
            # to allocate section memory' after a few hundred executables)
            import gc
            import jax
            jax.clear_caches()
            gc.collect()
        run_history(rec, case["module"], h, case["kind"])
        rec.sig(f"{case['module']}|" + ">".join(f"{o[0]}:{o[1]}@{o[2]}" for o in h))


def summarize(results):
    side = []
    for r in results:
        side += (r.get("info") or {}).get("refusal_with_side_effects", [])
    return {"refusals_with_side_effects": side[:20], "n_refusals_with_side_effects": len(side)}


def classify(case, v):
    d = v.get("detail", {})
    hist = d.get("history", [])
    msgs = " ".join(d.get("messages", []) or []) + " " + str(d.get("differing", "")) + " " + str(d.get("error", ""))
    # F10: delete_channel NaNs / drops columns (and the current name) that a remaining channel shares with the deleted one
    shared = {"K": ["eK", "vt", "i_K"], "Km": ["eK", "i_K"], "Na": ["vt", "eNa"], "CaL": ["eCa", "i_Ca"], "CaT": ["eCa", "i_Ca"]}
    dels = [o[1] for o in hist if o[0] == "delete_channel"]
    # F28: delete_channel leaves recordings / clamps / trainables of the deleted channel behind. Precondition: the violation is
    # reported AT a delete_channel operation; prediction: only I3/I4/I6, and every message names something the deleted channel owns
    op = d.get("op") or []
    if v["monitor"] == "R6" and op and op[0] == "delete_channel" and set(d.get("invariants") or []) <= {"I3", "I4", "I6"} and d.get("messages"):
        import re
        ch = op[1]
        own = lambda tok: tok.startswith(ch + "_") or tok == "i_" + ch or tok in shared.get(ch, [])
        named = []
        for msg in d["messages"]:
            m2 = re.search(r"(?:unknown state|trainable) (\S+)", msg)
            named.append(m2.group(1) if m2 else None)
        if all(t is not None and own(t) for t in named):
            return "F28"
    if v["monitor"] in ("R6", "undo", "refsim_equiv") and dels:
        for c in dels:
            if any(s in msgs for s in shared.get(c, [])):
                return "F10"
    return None
