"""C20 - connectivity builders create exactly the requested connections.

Events: rows appended to net.edges by fully_connect / sparse_connect / connectivity_matrix_connect,
mapped to cells through net.nodes.  Oracle: the definition (product set exactly once; True entries
exactly once; subset of the product; pre site = first compartment of the pre cell; post site inside
the intended post cell; no exception for any draw).
"""
import itertools

import numpy as np

from jxmon.gen import trees

PID = 20
RULE = ("networks of 2-8 cells with 1-3 branches of 1-3 compartments each (different sizes per cell); per case ~40 "
        "builder calls on random cell subsets with n_pre != n_post as a rule, global np.random re-seeded per call; "
        "sparse p in {0, small, .., 1}; boolean matrices: exhaustive up to 2x3/3x2 (quick) and 3x3 (thorough) plus "
        "random larger ones. distinct = (builder, n_pre, n_post, number of connections created); non-trivial = at "
        "least one connection requested")
ASSUMPTIONS = ["cells are identified through net.nodes.global_cell_index of the edge's pre/post_global_comp_index",
               "an all-False matrix that raises is recorded as a refusal (the statement does not cover it)"]
MECHANISMS = ["jaxley.connect:fully_connect", "jaxley.connect:sparse_connect", "jaxley.connect:connectivity_matrix_connect",
              "jaxley.modules.network:Network._append_multiple_synapses"]
MECHANISMS_REQUIRED = MECHANISMS
REQUIRED = {"quick": {"pairs_exact": 300, "sites": 600, "no_raise": 300},
            "thorough": {"pairs_exact": 6827, "sites": 19066, "no_raise": 6355}}


def cases(seed, tier):
    n = 24 if tier == "quick" else 400
    out = []
    for k in range(n):
        rng = trees.rng_for(seed, PID, k)
        ncell = int(rng.integers(2, 9))
        cells = []
        for _ in range(ncell):
            nb = int(rng.integers(1, 4))
            par = trees.random_parents(rng, nb)
            cells.append({"parents": [int(p) for p in par], "ncomp": [int(x) for x in rng.integers(1, 4, nb)]})
        calls = []
        for j in range(40):
            b = ["fully", "sparse", "matrix", "sparse"][j % 4]
            npre = int(rng.integers(1, ncell + 1))
            npost = int(rng.integers(1, ncell + 1))
            if npre == npost and ncell > 1 and rng.random() < 0.7:
                npost = npost % ncell + 1
            pre = sorted(int(x) for x in rng.choice(ncell, npre, replace=False))
            post = sorted(int(x) for x in rng.choice(ncell, npost, replace=False))
            c = {"b": b, "pre": pre, "post": post, "seed": int(rng.integers(0, 2**31)), "syn": int(rng.integers(0, 3)),
                 "scope": ["local", "global"][int(rng.integers(0, 2))]}
            if b == "sparse":
                c["p"] = float(rng.choice([0.0, 1.0, 0.5, 0.1, 1.0 / max(1, npre * npost), 0.02, 0.9]))
            if b == "matrix":
                c["matrix"] = (rng.random((npre, npost)) < rng.choice([0.1, 0.5, 0.9])).astype(int).tolist()
            calls.append(c)
        out.append({"cells": cells, "calls": calls, "kind": "random"})
    # exhaustive boolean matrices
    maxdim = 3
    shapes = [(r, c) for r in range(1, maxdim + 1) for c in range(1, maxdim + 1)]
    if tier == "quick":
        shapes = [s for s in shapes if s[0] * s[1] <= 6]
    for (r, c) in shapes:
        mats = list(itertools.product([0, 1], repeat=r * c))
        for chunk in range(0, len(mats), 64):
            calls = [{"b": "matrix", "pre": list(range(r)), "post": list(range(6 - c, 6)), "seed": 7 + i, "syn": i % 3,
                      "scope": "local", "matrix": np.asarray(m).reshape(r, c).tolist()} for i, m in enumerate(mats[chunk:chunk + 64])]
            out.append({"cells": [{"parents": [-1, 0][:nb], "ncomp": [1 + (i % 3)] * nb} for i, nb in enumerate([1, 2, 1, 2, 2, 1])],
                        "calls": calls, "kind": f"exhaustive{r}x{c}"})
    return out


def run_case(case, rec):
    import jaxley as jx
    from jaxley.connect import connectivity_matrix_connect, fully_connect, sparse_connect
    from jaxley.synapses import IonotropicSynapse, TanhRateSynapse, TestSynapse
    from jxmon import build
    from jxmon.core import Refused

    net = build.build_structure({"kind": "network", "cells": case["cells"]})
    cell_of = net.nodes["global_cell_index"].to_numpy()
    first_comp = {}
    for i, c in enumerate(cell_of):
        first_comp.setdefault(int(c), i)
    syn_cls = [IonotropicSynapse, TestSynapse, TanhRateSynapse]
    for call in case["calls"]:
        b = call["b"]
        nbefore = len(net.edges)
        np.random.seed(call["seed"])
        pre_v = net.scope(call["scope"]).cell(call["pre"]) if call["scope"] == "local" else net.scope("global").cell(call["pre"])
        post_v = net.scope(call["scope"]).cell(call["post"])
        syn = syn_cls[call["syn"]]()
        want_pairs = None
        requested = True
        try:
            if b == "fully":
                rec.call("no_raise", fully_connect, pre_v, post_v, syn, where="fully_connect")
                want_pairs = sorted((p, q) for p in call["pre"] for q in call["post"])
            elif b == "sparse":
                rec.call("no_raise", sparse_connect, pre_v, post_v, syn, call["p"], where="sparse_connect")
            else:
                mat = np.asarray(call["matrix"], dtype=bool)
                want_pairs = sorted((call["pre"][i], call["post"][j]) for i, j in zip(*np.where(mat)))
                requested = bool(mat.any())
                rec.call("no_raise", connectivity_matrix_connect, pre_v, post_v, syn, mat, where="connectivity_matrix_connect")
        except Refused as r:
            if b == "matrix" and not requested:
                continue  # all-False matrix: recorded as a refusal only
            rec.counts["no_raise"]["refused"] -= 1
            rec.violated("no_raise", builder=b, n_pre=len(call["pre"]), n_post=len(call["post"]), p=call.get("p"),
                         seed=call["seed"], error=repr(r.exc)[:200], edges_before=nbefore, edges_after=len(net.edges))
            if len(net.edges) != nbefore:
                return  # the module is in an unknown state: stop this history
            continue
        rec.held("no_raise")
        new = net.edges.iloc[nbefore:]
        pre_c = new["pre_global_comp_index"].to_numpy().astype(int)
        post_c = new["post_global_comp_index"].to_numpy().astype(int)
        pairs = sorted((int(cell_of[a]), int(cell_of[z])) for a, z in zip(pre_c, post_c))
        tag = dict(builder=b, n_pre=len(call["pre"]), n_post=len(call["post"]), pre=call["pre"], post=call["post"], seed=call["seed"])
        if want_pairs is not None:
            rec.check("pairs_exact", pairs == want_pairs, got=pairs[:24], want=want_pairs[:24], **tag)
        else:
            allowed = {(p, q) for p in call["pre"] for q in call["post"]}
            rec.check("pairs_exact", all(pq in allowed for pq in pairs), got=pairs[:24], what="pair outside pre x post", p=call["p"], **tag)
            if call["p"] == 0.0:
                rec.check("pairs_exact", len(pairs) == 0, what="p=0 created synapses", got=pairs[:8], **tag)
        # sites
        ok_pre = all(int(a) == first_comp[int(cell_of[a])] for a in pre_c)
        rec.check("sites", ok_pre, what="presynaptic site is not the first compartment of the pre cell", pre_comps=pre_c[:12], **tag)
        ok_post = all(int(cell_of[z]) in call["post"] for z in post_c)
        rec.check("sites", ok_post, what="postsynaptic site outside the intended post cells", post_comps=post_c[:12], **tag)
        # table bookkeeping of the appended rows
        ok_tab = list(net.edges["global_edge_index"]) == list(range(len(net.edges)))
        if len(new):
            ok_tab = ok_tab and bool((new["type"] == syn._name).all()) and all(k in new.columns for k in syn.synapse_params) \
                and not new[[k for k in syn.synapse_params if k in new.columns]].isna().any().any()
        rec.check("sites", ok_tab, what="appended edge rows malformed (index/type/params)", **tag)
        rec.sig(f"{b}|{len(call['pre'])}x{len(call['post'])}|{len(pairs)}", nontrivial=requested and (b != "sparse" or call["p"] > 0))


def classify(case, v):
    d = v.get("detail", {})
    if d.get("builder") == "fully" and d.get("n_pre") != d.get("n_post") and v["monitor"] == "pairs_exact":
        return "F7"
    if d.get("builder") == "sparse" and v["monitor"] == "no_raise" and "Length of values (0)" in str(d.get("error")):
        return "F8"
    return None
