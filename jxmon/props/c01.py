"""C01 - every voltage step is the exact solution of the discretised cable equation.

Deciding monitor `step_api`: integrate(...)[:,1] of passive modules (per-compartment random
Leak) for every (scheme, backend) against the independent dense oracle R1 (componentwise
backward error + forward error when well conditioned).
Supplementary: `step_fn` (manual stepping through build_init_and_step_fn), `solve_inner`
(wrappers on the three step_voltage_* functions under jax.disable_jit with HH inserted: the
membrane's linear terms are taken from the call arguments, the axial part is R1's own).
"""
import numpy as np

from jxmon.gen import trees

PID = 1
SCHEMES = ["bwd_euler", "crank_nicolson", "fwd_euler"]
BACKENDS = ["jaxley.stone", "jaxley.thomas", "jax.sparse"]
TOL_BWD = 1e-8
TOL_FWD = 1e-6
COND_MAX = 1e8

RULE = ("random rooted branch trees (recursive/chain/star/binary/caterpillar; random topological and, as a "
        "separate class, non-topological labelling), per-branch compartment counts 1..6 (equal/random/"
        "parent-shorter-than-level/leaf-longest), per-compartment log-uniform radius/length/r_a/c_m/g, random "
        "v0/E/stimulus, dt log-uniform in [1e-4,1e9] + corners; modules Compartment/Branch/Cell/Network; every "
        "(scheme, backend) pair. distinct = (module kind, canonical tree shapes, sorted ncomp vectors, labelling, "
        "scheme, backend) with a non-refused comparison; non-trivial = at least 2 compartments")
ASSUMPTIONS = [
    "R1 (jxmon/oracles/cable.py) is the specification of the discretised cable equation; it is self-tested in setup.sh",
    "numpy.linalg.solve in float64 is accurate to cond*eps on R1's equilibrated system",
    "exceptions raised by integrate are refusals (allowed by the property), counted by type",
]
MECHANISMS = [
    "jaxley.solver_voltage:_triang_branched", "jaxley.solver_voltage:_backsub_branched",
    "jaxley.solver_voltage:_eliminate_children_lower", "jaxley.solver_voltage:_eliminate_parents_upper",
    "jaxley.solver_voltage:step_voltage_implicit_with_jaxley_spsolve",
    "jaxley.solver_voltage:step_voltage_implicit_with_jax_spsolve",
    "jaxley.solver_voltage:step_voltage_explicit",
    "jaxley.utils.solver_utils:remap_index_to_masked", "jaxley.utils.solver_utils:comp_edges_to_indices",
    "jaxley.utils.solver_utils:convert_to_csc", "jaxley.utils.cell_utils:compute_axial_conductances",
    "jaxley.modules.base:Module.step",
]
MECHANISMS_REQUIRED = [
    "jaxley.solver_voltage:_triang_branched", "jaxley.solver_voltage:step_voltage_implicit_with_jax_spsolve",
    "jaxley.utils.cell_utils:compute_axial_conductances", "jaxley.modules.base:Module.step",
]
REQUIRED = {"quick": {"step_api": 150},
            "thorough": {"step_api": 3948}}
WALL_BUDGET = {"quick": 1500, "thorough": 4 * 3600}


def cases(seed, tier):
    n = 72 if tier == "quick" else 900
    out = []
    kinds = ["comp", "branch", "cell", "cell", "cell", "cell", "network", "network"]
    for k in range(n):
        rng = trees.rng_for(seed, PID, k)
        kind = kinds[k % len(kinds)]
        nontopo = (k % 9 == 4)
        st = trees.random_structure(rng, kind=kind, max_branches=10 if tier == "quick" else 12,
                                    max_cells=3 if tier == "quick" else 4, nmax=5, nontopo=nontopo)
        if k % 12 in (7, 11):
            st = trees.point_network(rng, mixed=(k % 12 == 11))
        ncomp = trees.total_comps(st)
        p = trees.passive_params(rng, ncomp, hetero=(k % 5 != 0))
        case = {
            "struct": st, "params": p,
            "stim": [float(x) for x in rng.uniform(-2, 2, ncomp)],
            "dt": trees.random_dt(rng),
            "schemes": SCHEMES, "backends": BACKENDS,
            "manual": bool(k % 4 == 1), "inner": bool(k % 6 == 2),
        }
        if kind == "network" and k % 3 == 0:
            case["zero_syn"] = True
        out.append(case)
    return out


def _sig(case, scheme, backend):
    st = case["struct"]
    shape = sorted((trees.canonical_tree(c["parents"]), tuple(sorted(c["ncomp"]))) for c in st["cells"])
    return f"{st['kind']}|{shape}|{st['labelling']}|{scheme}|{backend}"


def _judge(rec, monitor, case, scheme, backend, v0, v1, dt, extra=None):
    from jxmon.oracles import cable

    st, p = case["struct"], case["params"]
    r = cable.backward_error(st["cells"], p["radius"], p["length"], p["ra"], p["cm"], v0, v1, dt, scheme,
                             p["g"], p["e"], case["stim"])
    ok = np.all(np.isfinite(v1)) and r["backward"] <= TOL_BWD
    if ok and r["cond"] <= COND_MAX:
        ok = r["forward"] <= TOL_FWD
    rec.check(monitor, ok, scheme=scheme, backend=backend, dt=dt, backward=r["backward"], forward=r["forward"],
              cond=r["cond"], max_abs_err_mV=float(np.max(np.abs(np.asarray(v1) - r["ref"]))),
              f1_pre=[trees.f1_precondition(c["parents"], c["ncomp"]) for c in st["cells"]],
              labelling=st["labelling"], kind=st["kind"], **(extra or {}))
    return ok, r


def run_case(case, rec):
    import jax
    import jaxley as jx
    from jxmon import build
    from jxmon.core import Refused

    st, p, dt = case["struct"], case["params"], case["dt"]
    m = rec.call("build", build.build_structure, st)
    build.set_passive(m, p)
    if case.get("zero_syn") and st["kind"] == "network" and len(st["cells"]) > 1:
        from jaxley.synapses import IonotropicSynapse
        from jaxley.connect import connect
        connect(m.cell(0).branch(0).comp(0), m.cell(1).branch(0).comp(0), IonotropicSynapse())
        m.set("IonotropicSynapse_gS", 0.0)
    build.record_all_v(m)
    ncomp = trees.total_comps(st)
    for scheme in case["schemes"]:
        for backend in case["backends"]:
            try:
                v0, v1 = rec.call("step_api", build.one_step, m, case["stim"], dt, scheme, backend,
                                  where=f"{scheme}/{backend}")
            except Refused:
                continue
            if not np.allclose(v0, p["v"], rtol=0, atol=0):
                rec.violated("step_api", what="column 0 is not the initial voltage", scheme=scheme, backend=backend)
                continue
            _judge(rec, "step_api", case, scheme, backend, v0, v1, dt)
            rec.sig(_sig(case, scheme, backend), nontrivial=ncomp >= 2)

    edited = _after_edits(case, rec, m)
    if case.get("manual"):
        _manual(edited, rec, m)
    if case.get("inner"):
        _inner(case, rec)


def _after_edits(case, rec, m):
    """History: the module has been simulated; now parameters are edited with set() and it is simulated
    again.  The second simulation must be the exact step for the *edited* tables (no stale derived data)."""
    import copy
    from jxmon import build
    from jxmon.core import Refused

    rng = trees.rng_for(int(case["dt"] * 1e6) % (2**31), PID, 99)
    p = copy.deepcopy(case["params"])
    n = trees.total_comps(case["struct"])
    case2 = dict(case)
    case2["params"] = p
    cols = {"cm": "capacitance", "radius": "radius", "length": "length", "ra": "axial_resistivity", "g": "Leak_gLeak", "v": "v"}
    order = ["cm"] + [str(k) for k in rng.permutation(["radius", "length", "ra", "g", "v"])][:2]
    backend = str(rng.choice(BACKENDS))
    for key in order:
        fac = rng.uniform(0.3, 3.0, n) if key != "v" else 1.0
        p[key] = [float(x) for x in (np.asarray(p[key]) * fac + (rng.uniform(-20, 20, n) if key == "v" else 0.0))]
        m.set(cols[key], np.asarray(p[key]))
        for scheme in ("bwd_euler", "crank_nicolson"):
            try:
                v0, v1 = rec.call("step_api", build.one_step, m, case["stim"], case["dt"], scheme, backend,
                                  where=f"after set({cols[key]}) {scheme}/{backend}")
            except Refused:
                continue
            _judge(rec, "step_api", case2, scheme, backend, v0, v1, case["dt"], extra={"after_edit": cols[key]})
    return case2


def _manual(case, rec, m):
    """Module.step via build_init_and_step_fn, called eagerly once."""
    import jax.numpy as jnp
    import jaxley as jx
    from jxmon.core import Refused

    p, dt = case["params"], case["dt"]
    for scheme, backend in [("bwd_euler", "jaxley.stone"), ("crank_nicolson", "jax.sparse")]:
        try:
            def go():
                m.delete_stimuli()
                m.stimulate(jnp.asarray(np.asarray(case["stim"])[:, None]), verbose=False)
                m.to_jax()
                from jaxley.integrate import build_init_and_step_fn
                init_fn, step_fn = build_init_and_step_fn(m, voltage_solver=backend, solver=scheme)
                states, params = init_fn([], None, None, dt)
                v_before = np.array(states["v"])  # step() updates the dict it is given
                ext = {k: jnp.asarray(v)[:, 0] for k, v in m.externals.items()}
                new = step_fn(states, params, ext, m.external_inds, dt)
                m.delete_stimuli()
                return v_before, np.asarray(new["v"])
            v0, v1 = rec.call("step_fn", go, where=f"manual {scheme}/{backend}")
        except Refused:
            m.delete_stimuli()
            continue
        _judge(rec, "step_fn", case, scheme, backend, v0, v1, dt)


def _inner(case, rec):
    """HH-bearing module, 2 eager steps; every call of a step_voltage_* function is re-solved
    with R1's Laplacian and the membrane terms found in the call arguments."""
    import jax
    import jax.numpy as jnp
    import jaxley as jx
    from jaxley.channels import HH
    import jaxley.solver_voltage as sv
    from jxmon import build, probes
    from jxmon.core import Refused
    from jxmon.oracles import cable

    st, p = case["struct"], case["params"]
    dt = min(case["dt"], 1.0)
    if trees.total_comps(st) > 20:
        rec.skipped("solve_inner", "module too large for eager run")
        return
    m = build.build_structure(st)
    build.set_passive(m, p, leak=False)
    m.insert(HH())
    build.record_all_v(m)
    calls = []

    def mk(func, h):
        def w(*a, **k):
            out = func(*a, **k)
            h.calls += 1
            calls.append((func.__name__, {kk: k[kk] for kk in ("voltages", "voltage_terms", "constant_terms", "delta_t")}, out))
            return out
        w.__name__ = func.__name__
        return w

    handles = [probes.wrap_everywhere(f, mk) for f in (sv.step_voltage_implicit_with_jaxley_spsolve,
                                                       sv.step_voltage_implicit_with_jax_spsolve)]
    area, cap, _ = cable.geometry(p["radius"], p["length"], p["ra"], p["cm"])
    cm = np.asarray(p["cm"])
    try:
        for backend in ["jaxley.stone", "jax.sparse"]:
            del calls[:]
            try:
                with jax.disable_jit():
                    m.delete_stimuli()
                    m.stimulate(jnp.asarray(np.tile(np.asarray(case["stim"])[:, None], (1, 2))), verbose=False)
                    rec.call("solve_inner", jx.integrate, m, delta_t=dt, voltage_solver=backend, where=f"eager HH {backend}")
            except Refused:
                continue
            if not calls:
                rec.skipped("solve_inner", "wrapper not reached")
                continue
            for name, kw, out in calls:
                v_old = np.asarray(kw["voltages"], dtype=np.float64)
                g = np.asarray(kw["voltage_terms"], dtype=np.float64) * cm / 1000.0  # S/cm^2
                inj = np.asarray(kw["constant_terms"], dtype=np.float64) * cm * area * 1e-5  # nA
                h = float(kw["delta_t"])
                r = cable.backward_error(st["cells"], p["radius"], p["length"], p["ra"], p["cm"], v_old,
                                         np.asarray(out, dtype=np.float64), h, "bwd_euler", g, np.zeros_like(g), inj)
                ok = r["backward"] <= TOL_BWD and (r["cond"] > COND_MAX or r["forward"] <= TOL_FWD)
                rec.check("solve_inner", ok, fn=name, backend=backend, backward=r["backward"], forward=r["forward"],
                          cond=r["cond"], f1_pre=[trees.f1_precondition(c["parents"], c["ncomp"]) for c in st["cells"]],
                          labelling=st["labelling"], kind=st["kind"])
    finally:
        for h in handles:
            h.restore()
        rec.info["inner_wrapper_calls"] = sum(h.calls for h in handles)


def classify(case, v):
    """Known-finding classifiers (mechanism-keyed). Only consulted for findings still open in
    known_findings.json."""
    d = v.get("detail", {})
    backend = d.get("backend")
    if backend in ("jaxley.stone", "jaxley.thomas"):
        if d.get("labelling") == "nontopo":
            return "F14"
        if any(d.get("f1_pre", [])):
            return "F1"
    if d.get("scheme") == "fwd_euler" and d.get("kind") == "network":
        return "F15"
    return None
