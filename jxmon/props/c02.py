"""C02 - axial coupling conserves charge, is reciprocal and never overshoots.

Physical identities only (no reference solution): per (scheme, backend) a jitted one-step
simulation as a function of the injected current vector is evaluated for the stimulus, for
zero current and for a unit current in every compartment in turn.
"""
import numpy as np

from jxmon.gen import trees

PID = 2
BACKENDS = ["jaxley.stone", "jaxley.thomas", "jax.sparse"]
RULE = ("C01 generator (all module kinds, irregular trees, heterogeneous per-compartment parameters, dt log-uniform "
        "in (0,1e9]); per (scheme, backend): charge balance, uniform-stays-uniform, maximum principle (bwd_euler), "
        "reciprocity over all ordered pairs from N+1 one-step runs. distinct = (kind, canonical shapes, sorted ncomp, "
        "scheme, backend); non-trivial = >= 2 compartments")
ASSUMPTIONS = [
    "membrane area = 2*pi*r*l, C_i = c_m*A_i, G_i = g*A_i (definition of the compartmental model)",
    "tolerances are relative to the magnitude of the terms that enter each row of the linear system (rounding scale)",
]
MECHANISMS = [
    "jaxley.utils.cell_utils:compute_coupling_cond", "jaxley.utils.cell_utils:compute_coupling_cond_branchpoint",
    "jaxley.utils.cell_utils:compute_impact_on_node", "jaxley.utils.cell_utils:convert_point_process_to_distributed",
    "jaxley.modules.base:Module._get_external_input",
    "jaxley.solver_voltage:step_voltage_implicit_with_jaxley_spsolve",
    "jaxley.solver_voltage:step_voltage_implicit_with_jax_spsolve",
]
MECHANISMS_REQUIRED = ["jaxley.utils.cell_utils:compute_coupling_cond",
                       "jaxley.utils.cell_utils:convert_point_process_to_distributed"]
REQUIRED = {"quick": {"charge": 100, "uniform": 100, "maxprinciple": 50, "reciprocity": 100},
            "thorough": {"charge": 1838, "uniform": 1432, "maxprinciple": 693, "reciprocity": 1610}}
WALL_BUDGET = {"quick": 1500, "thorough": 4 * 3600}
TOL = 1e-8


def cases(seed, tier):
    n = 48 if tier == "quick" else 640
    kinds = ["comp", "branch", "cell", "cell", "cell", "cell", "network", "network"]
    out = []
    for k in range(n):
        rng = trees.rng_for(seed, PID, k)
        st = trees.random_structure(rng, kind=kinds[k % len(kinds)], max_branches=7, max_cells=3, nmax=4,
                                    nontopo=(k % 11 == 5))
        while trees.total_comps(st) > 16:
            st = trees.random_structure(rng, kind=kinds[k % len(kinds)], max_branches=5, max_cells=2, nmax=3)
        if k % 12 in (7, 11):
            st = trees.point_network(rng, mixed=(k % 12 == 11))
            while trees.total_comps(st) > 16:
                st = trees.point_network(rng, mixed=(k % 12 == 11))
        nc = trees.total_comps(st)
        p = trees.passive_params(rng, nc, hetero=(k % 4 != 0))
        out.append({"struct": st, "params": p, "stim": [float(x) for x in rng.uniform(-2, 2, nc)],
                    "dt": trees.random_dt(rng), "uniform_v": float(rng.uniform(-90, 30)),
                    "uniform_mode": ["noleak", "e_equals_v"][k % 2]})
    return out


def _sig(case, scheme, backend):
    st = case["struct"]
    shape = sorted((trees.canonical_tree(c["parents"]), tuple(sorted(c["ncomp"]))) for c in st["cells"])
    return f"{st['kind']}|{shape}|{scheme}|{backend}"


def _make_sim(m, dt, scheme, backend):
    import jax
    import jaxley as jx

    def f(cur):
        ds = m.data_stimulate(cur, None)
        return jx.integrate(m, data_stimuli=ds, delta_t=dt, solver=scheme, voltage_solver=backend)

    return jax.jit(f)


def run_case(case, rec):
    import jax.numpy as jnp
    from jxmon import build
    from jxmon.core import Refused
    from jxmon.oracles import cable

    st, p, dt = case["struct"], case["params"], case["dt"]
    n = trees.total_comps(st)
    area, cap, g_half = cable.geometry(p["radius"], p["length"], p["ra"], p["cm"])
    G = np.asarray(p["g"]) * area * 1e-2  # uS
    E = np.asarray(p["e"])
    v0 = np.asarray(p["v"])
    L, _, nb = cable.laplacian(st["cells"], g_half)
    branched = nb > 0
    det = dict(kind=st["kind"], labelling=st["labelling"],
               f1_pre=[trees.f1_precondition(c["parents"], c["ncomp"]) for c in st["cells"]])

    m = rec.call("build", build.build_structure, st)
    build.set_passive(m, p)
    build.record_all_v(m)
    mu = build.build_structure(st)
    pu = dict(p)
    pu["v"] = [case["uniform_v"]] * n
    if case["uniform_mode"] == "noleak":
        pu["g"] = [0.0] * n
    else:
        pu["e"] = [case["uniform_v"]] * n
    build.set_passive(mu, pu)
    build.record_all_v(mu)

    schemes = ["bwd_euler", "crank_nicolson"] + ([] if branched else ["fwd_euler"])
    for scheme in schemes:
        for backend in BACKENDS:
            if scheme == "fwd_euler" and backend == "jax.sparse":
                continue
            h = dt if scheme != "crank_nicolson" else dt / 2
            dtx = dt
            if scheme == "fwd_euler":
                # keep the explicit step inside its stability region so numbers stay finite
                rate = (np.abs(np.diag(L)[:n]) + G) / cap
                dtx = float(min(dt, 0.5 / np.max(rate)))
            try:
                sim = _make_sim(m, dtx, scheme, backend)
                out = np.asarray(rec.call("charge", sim, jnp.asarray(np.asarray(case["stim"])[:, None]),
                                          where=f"{scheme}/{backend}"))
            except Refused:
                continue
            tag = dict(scheme=scheme, backend=backend, dt=dtx, **det)
            v1 = out[:, 1]
            rec.sig(_sig(case, scheme, backend), nontrivial=n >= 2)
            # (a) charge balance
            I = np.asarray(case["stim"])
            vt = {"bwd_euler": v1, "crank_nicolson": (v0 + v1) / 2, "fwd_euler": v0}[scheme]
            lhs = np.sum(cap * (v1 - v0))
            rhs = dtx * (np.sum(I) - np.sum(G * (vt - E)))
            hh = dtx if scheme != "crank_nicolson" else dtx / 2
            scale = hh * float(np.sum(np.abs(L[:n, :n]) @ np.abs(vt) + G * np.abs(vt) + cap / hh * np.abs(vt)
                                      + cap / hh * np.abs(v0) + G * np.abs(E) + np.abs(I)))
            rec.check("charge", np.isfinite(lhs) and abs(lhs - rhs) <= TOL * scale, lhs_pC=float(lhs), rhs_pC=float(rhs),
                      rel=float(abs(lhs - rhs) / scale), **tag)
            # (c) maximum principle for backward Euler without stimulus
            v_ns = np.asarray(sim(jnp.zeros((n, 1))))[:, 1]
            if scheme == "bwd_euler":
                lo = min(v0.min(), E[G > 0].min() if np.any(G > 0) else np.inf)
                hi = max(v0.max(), E[G > 0].max() if np.any(G > 0) else -np.inf)
                slack = 1e-9 * (1 + max(abs(lo), abs(hi)))
                rec.check("maxprinciple", np.all(np.isfinite(v_ns)) and v_ns.min() >= lo - slack and v_ns.max() <= hi + slack,
                          lo=float(lo), hi=float(hi), vmin=float(np.min(v_ns)), vmax=float(np.max(v_ns)), **tag)
            # (d) reciprocity over all ordered pairs
            R = np.zeros((n, n))
            for i in range(n):
                cur = np.zeros((n, 1))
                cur[i, 0] = 1.0
                R[:, i] = np.asarray(sim(jnp.asarray(cur)))[:, 1] - v_ns
            A = L.copy()
            A[np.arange(n), np.arange(n)] += cap / hh + G
            d = 1.0 / np.sqrt(np.abs(np.diag(A)))
            cond = float(np.linalg.cond(A * d[:, None] * d[None, :])) if scheme != "fwd_euler" else 1.0
            floor = 1e-13 * max(cond, 1.0) * (1 + np.max(np.abs(v_ns))) + 1e-300
            asym = np.abs(R - R.T)
            tol = 1e-7 * np.maximum(np.abs(R), np.abs(R.T)) + floor
            bad = np.argwhere(asym > tol)
            if cond > 1e9:
                rec.skipped("reciprocity", "system too ill-conditioned for a difference quotient")
            else:
                ok = np.all(np.isfinite(R)) and len(bad) == 0
                ij = bad[0].tolist() if len(bad) else None
                rec.check("reciprocity", ok, pair=ij, r_ij=float(R[ij[0], ij[1]]) if ij else None,
                          r_ji=float(R[ij[1], ij[0]]) if ij else None, cond=cond, npairs=n * (n - 1), **tag)
                # diagonal sanity for the explicit scheme: dv_i = I*dt/C_i exactly
                if scheme == "fwd_euler":
                    rec.check("charge", np.allclose(np.diag(R), dtx / cap, rtol=1e-9, atol=floor), what="fwd_euler dv != I*dt/C",
                              got=np.diag(R)[:4], want=(dtx / cap)[:4], **tag)
            # (b) uniform stays uniform
            try:
                simu = _make_sim(mu, dtx, scheme, backend)
                vu = np.asarray(rec.call("uniform", simu, jnp.zeros((n, 1)), where=f"uniform {scheme}/{backend}"))[:, 1]
            except Refused:
                continue
            u = case["uniform_v"]
            # forward error of a solve is bounded by cond * backward error: the leak-free system at huge dt is
            # nearly singular (cond ~ g_axial*dt/C), so the admissible deviation scales with its condition number
            Gu = np.asarray(pu["g"]) * area * 1e-2
            Au = L.copy()
            Au[np.arange(n), np.arange(n)] += cap / hh + Gu
            du = 1.0 / np.sqrt(np.abs(np.diag(Au)))
            condu = float(np.linalg.cond(Au * du[:, None] * du[None, :])) if scheme != "fwd_euler" else 1.0
            tolu = (1e-9 + 1e-13 * condu) * (1 + abs(u))
            if tolu > 1e-4:
                rec.skipped("uniform", "leak-free system at this dt too ill-conditioned to judge")
                continue
            rec.check("uniform", np.all(np.isfinite(vu)) and np.max(np.abs(vu - u)) <= tolu,
                      v_uniform=u, max_dev=float(np.max(np.abs(vu - u))), cond=condu, mode=case["uniform_mode"], **tag)


def classify(case, v):
    d = v.get("detail", {})
    if d.get("backend") in ("jaxley.stone", "jaxley.thomas"):
        if d.get("labelling") == "nontopo":
            return "F14"
        if any(d.get("f1_pre", [])):
            return "F1"
    if d.get("scheme") == "fwd_euler" and d.get("kind") == "network":
        return "F15"
    return None
