"""C10 - all ways of setting a parameter are equivalent and touch only what was selected.

`scatter_ref`: after sequences of make_trainable calls on random views the arrays returned by
get_all_parameters / get_all_states must equal the reference scatter computed from the view model
R4 (rows of group g receive p_g, EVERY other row keeps its uniquely tagged table value).
`write_back`: write_trainables stores exactly those arrays.  `three_routes`: set / data_set /
make_trainable+params give the same simulation.
"""
import numpy as np

from jxmon.gen import trees
from jxmon.props import c11

PID = 10
RULE = ("worlds of C11 (irregular networks/cells, two interleaved synapse types, HH/K partially inserted); per case 1-3 "
        "make_trainable calls on views reached by random chains (so views routinely exclude the module's last compartment/"
        "edge and share parameters over groups of unequal size) with unique init values; keys: radius, length, "
        "axial_resistivity, capacitance, channel parameters, initial states v/HH_m, synaptic gS and state s. distinct = "
        "(base kind, key class, grouping kind, equal/unequal group sizes, #calls); non-trivial = selection is a proper subset")
ASSUMPTIONS = [
    "sharing rule (R4): the last selection step decides the grouping - comp/branch/cell/edge: one parameter each; select(): one per "
    "row; group/channel/synapse name/whole module: one parameter",
    "every table cell carries a unique value, so an overwritten row is visible",
]
MECHANISMS = ["jaxley.modules.base:Module.make_trainable", "jaxley.modules.base:Module.get_all_parameters",
              "jaxley.modules.base:Module.get_all_states", "jaxley.modules.base:Module.write_trainables",
              "jaxley.modules.base:Module.data_set", "jaxley.modules.base:Module.set", "jaxley.utils.cell_utils:params_to_pstate"]
MECHANISMS_REQUIRED = MECHANISMS
REQUIRED = {"quick": {"scatter_ref": 150, "write_back": 60, "three_routes": 12},
            "thorough": {"scatter_ref": 18744, "write_back": 858, "three_routes": 304}}
NODE_KEYS = ["radius", "length", "axial_resistivity", "capacitance", "v"]


def grouping_after(world, ops):
    """-> (vm, node_group: {row: value}, edge_group: {edge: value}) following the chain in the model"""
    vm = c11.vm_of(world)
    nbase = len(world["arrays"]["comp"])
    ng = {int(r): 0 for r in vm.nodes}
    eg = {int(e): 0 for e in vm.edges}
    for op in ops:
        o = op["op"]
        if o == "scope":
            vm = vm.scope(op["s"])
            continue
        if o in ("cell", "branch", "comp"):
            vm = vm.at(o, c11.index_values(op["form"], op["payload"], nbase))
            if vm is None:
                return None, None, None
            src = {"cell": vm.cell, "branch": vm.branch, "comp": vm.comp}[o]
            ng = {int(r): int(src[r]) for r in vm.nodes}
            eg = {int(e): 0 for e in vm.edges}
        elif o == "select":
            vm = vm.select(nodes=op["nodes"])
            if vm is None:
                return None, None, None
            ng = {int(r): i for i, r in enumerate(vm.nodes)}
            eg = {int(e): i for i, e in enumerate(vm.edges)}
        elif o == "edge":
            vm = vm.edge_global(c11.index_values(op["form"], op["payload"], nbase))
            if vm is None:
                return None, None, None
            ng = {int(r): ng.get(int(r), 0) for r in vm.nodes}
            eg = {int(e): i for i, e in enumerate(vm.edges)}
        elif o in ("group", "channel", "synapse"):
            vm = {"group": vm.group, "channel": vm.channel, "synapse": vm.synapse}[o](op["name"])
            if vm is None:
                return None, None, None
            ng = {int(r): 0 for r in vm.nodes}
            eg = {int(e): 0 for e in vm.edges}
        else:
            raise ValueError(o)
    return vm, ng, eg


def gen_view_ops(rng, world):
    for _ in range(20):
        ops = c11.gen_chain(rng, world, int(rng.integers(1, 4)))
        for i, o in enumerate(ops):  # cut at the first loc (its grouping/ambiguity is C11's business); never drop ops in the middle
            if o["op"] == "loc":
                ops = ops[:i]
                break
        # drop trailing ops that empty the view
        while ops:
            vm, ng, eg = grouping_after(world, ops)
            if vm is not None:
                return ops
            ops = ops[:-1]
        if rng.random() < 0.3:
            return []
    return []


def cases(seed, tier):
    n = 90 if tier == "quick" else 2400
    out = []
    for k in range(n):
        rng = trees.rng_for(seed, PID, k)
        kind = ["network", "cell", "network", "cell", "branch"][k % 5] if k % 12 else "network"
        directed, directed_key = None, None
        if k % 10 == 7:
            # the PADDED index array of the trainable has exactly as many entries as the module has compartments, without
            # covering them: branches (a, b, b-a), one parameter per branch on the first two -> 2 x b entries for 2b compartments
            a, b = [(2, 4), (1, 3), (1, 4), (2, 3), (1, 2), (3, 4)][int(rng.integers(0, 6))]
            sizes, sel = [a, b, b - a], [0, 1]
            perm = [int(x) for x in rng.permutation(3)]
            sizes = [sizes[p] for p in perm]
            sel = sorted(perm.index(x) for x in sel)
            kind = "cell"
            world = c11.make_world(rng, kind, st={"kind": "cell", "cells": [{"parents": [-1, 0, int(rng.integers(0, 2))], "ncomp": sizes}]})
            directed = [{"op": "branch", "form": "list", "payload": sel}]
        elif k % 10 == 9:
            # many synapses of two types interleaved in creation order, one run-time parameter PER EDGE of one type
            kind = "network"
            world = c11.make_world(rng, kind, nsyn=int(rng.integers(12, 33)))
            t = int(rng.integers(0, 2))
            es = [i for i, s3 in enumerate(world["syn"]) if s3[2] == t]
            if len(es) >= 2:
                directed = [{"op": "scope", "s": "global"}, {"op": "edge", "form": "list", "payload": es}]
                directed_key = ["IonotropicSynapse_gS", "TestSynapse_gC"][t]
        else:
            world = c11.make_world(rng, kind)
            if k % 10 == 3:
                # one parameter per compartment, created through a view that lists all compartments in another order
                directed = [{"op": "select", "nodes": [int(x) for x in rng.permutation(len(world["arrays"]["comp"]))], "edges": None}]
        world["channels"].setdefault("HH", sorted(set(int(x) for x in rng.integers(0, len(world["arrays"]["comp"]), 4))))
        routes = (k % 6 == 0) and len(world["arrays"]["comp"]) <= 14 and directed_key is None
        calls = []
        for j in range(1 if routes else int(rng.integers(1, 4))):
            ops = gen_view_ops(rng, world) if (directed is None or j > 0) else directed
            vm, ng, eg = grouping_after(world, ops)
            keys = list(NODE_KEYS)
            if any(r in set(world["channels"].get("HH", [])) for r in vm.nodes):
                keys += ["HH_gNa", "HH_m", "HH_eK"]
            if any(r in set(world["channels"].get("K", [])) for r in vm.nodes):
                keys += ["K_gK", "eK"]
            if kind == "network" and any(vm.etype[e] == "IonotropicSynapse" for e in vm.edges):
                keys += ["IonotropicSynapse_gS", "IonotropicSynapse_s", "IonotropicSynapse_gS"]
            if kind == "network" and any(vm.etype[e] == "TestSynapse" for e in vm.edges):
                keys += ["TestSynapse_gC"]
            key = str(rng.choice(keys if (directed is None or j > 0) else NODE_KEYS))
            if directed_key and j == 0:
                key = directed_key
            calls.append({"ops": ops, "key": key, "vseed": int(rng.integers(0, 2**31)),
                          "init": ["list", "list", "float", "none"][int(rng.integers(0, 4))]})
        if routes and kind == "network" and world["syn"] and k % 12 == 0:
            # geometry of a POSTSYNAPTIC compartment supplied at integrate time: the synaptic current density must follow it
            post = int(world["syn"][0][1])
            calls = [{"ops": [{"op": "select", "nodes": [post], "edges": None}], "key": str(rng.choice(["radius", "length"])),
                      "vseed": int(rng.integers(0, 2**31)), "init": "list"}]
        out.append({"world": world, "calls": calls, "routes": bool(routes), "scalar": float(rng.uniform(0.2, 0.9))})
    return out


# ------------------------------------------------------------------ worker side
def tag_tables(m, world):
    """unique values in every parameter/state cell (positive, in a harmless range)"""
    n = len(m.nodes)
    for j, col in enumerate(["radius", "length", "axial_resistivity", "capacitance"]):
        base = {"radius": 1.0, "length": 10.0, "axial_resistivity": 100.0, "capacitance": 1.0}[col]
        m.set(col, base * (1.0 + 0.001 * (np.arange(n) + 1) + 0.1 * j))
    m.set("v", -70.0 - 0.01 * np.arange(n))
    for col in list(m.nodes.columns):
        if col.startswith(("HH_", "K_")) or col in ("eK",):
            mask = ~m.nodes[col].isna().to_numpy()
            if m.nodes[col].dtype == bool:
                continue
            vals = m.nodes[col].to_numpy(dtype=float).copy()
            vals[mask] = vals[mask] * (1.0 + 0.001 * (np.arange(n)[mask] + 1))
            m.nodes[col] = vals
    for col in list(m.edges.columns):
        if col.startswith(("IonotropicSynapse_", "TestSynapse_")):
            vals = m.edges[col].to_numpy(dtype=float).copy()
            mask = ~np.isnan(vals)
            vals[mask] = (np.abs(vals[mask]) + 1e-4) * (1.0 + 0.01 * (np.arange(len(vals))[mask] + 1))
            m.edges[col] = vals


def view_of(m, world, ops):
    rv, vm = m, c11.vm_of(world)
    nbase = len(world["arrays"]["comp"])
    for op in ops:
        rv, vm = c11.apply_op(rv, vm, op, nbase)
    return rv


def expected_groups(world, m, call):
    """-> (is_edge_key, list of (group value, [row labels]) in ascending group order) over rows where the key is not NaN"""
    vm, ng, eg = grouping_after(world, call["ops"])
    key = call["key"]
    is_edge = key in m.edges.columns and key not in m.nodes.columns
    tab = m.edges if is_edge else m.nodes
    rows = [int(e) for e in vm.edges] if is_edge else [int(r) for r in vm.nodes]
    grp = eg if is_edge else ng
    rows = [r for r in rows if not np.isnan(tab.loc[r, key])]
    out = {}
    for r in rows:
        out.setdefault(grp[r], []).append(r)
    return is_edge, sorted(out.items())


def run_case(case, rec):
    import copy
    import jax.numpy as jnp
    from jaxley.utils.cell_utils import params_to_pstate
    from jxmon.core import Refused

    world = case["world"]
    kind = world["struct"]["kind"]
    m = rec.call("build", c11.build_world, world)
    tag_tables(m, world)
    if case["routes"]:
        return _routes(case, rec, m, world)
    ref_nodes = m.nodes.copy(deep=True)
    ref_edges = m.edges.copy(deep=True)
    values = []
    desc = []
    for call in case["calls"]:
        rng = np.random.default_rng(call["vseed"])
        is_edge, groups = expected_groups(world, m, call)
        if not groups:
            continue
        key = call["key"]
        vals = [float(x) for x in rng.uniform(0.3, 0.7, len(groups))]
        view = view_of(m, world, call["ops"])
        init = call["init"]
        tab = m.edges if is_edge else m.nodes
        try:
            if init == "list":
                rec.call("scatter_ref", view.make_trainable, key, vals, verbose=False, where="make_trainable(list)")
            elif init == "float":
                vals = [vals[0]] * len(groups)
                rec.call("scatter_ref", view.make_trainable, key, vals[0], verbose=False, where="make_trainable(float)")
            else:
                vals = [float(np.mean([tab.loc[r, key] for r in rows])) for g, rows in groups]
                rec.call("scatter_ref", view.make_trainable, key, None, verbose=False, where="make_trainable(None)")
        except Refused:
            return
        got_p = np.asarray(list(m.trainable_params[-1].values())[0], dtype=float)
        sizes = sorted(len(r) for g, r in groups)
        tag = dict(key=key, ops=call["ops"], kind=kind, n_groups=len(groups), group_sizes=sizes[:12], init=init)
        ok_n = got_p.shape == (len(groups),) and np.allclose(got_p, vals, rtol=1e-12, atol=0)
        rec.check("scatter_ref", ok_n, what="number/initial values of created parameters", got=got_p[:12], want=vals[:12], **tag)
        if not ok_n:
            return
        # reference scatter on the shadow tables, in call order (with the parameter values actually created)
        vals = [float(x) for x in got_p]
        for (g, rows), v in zip(groups, vals):
            for r in rows:
                (ref_edges if is_edge else ref_nodes).loc[r, key] = v
        values.append(vals)
        eq = "equal" if len(set(sizes)) == 1 else "unequal"
        last = ([o["op"] for o in call["ops"] if o["op"] != "scope"] or ["module"])[-1]
        desc.append(f"{'edge' if is_edge else 'state' if key in ('v', 'HH_m', 'IonotropicSynapse_s') else 'param'}:{last}:{eq}")
        proper = len([r for g, rr in groups for r in rr]) < len(tab)
        rec.sig(f"{kind}|{desc[-1]}|{len(case['calls'])}", nontrivial=proper)
    if not values:
        return
    params = m.get_parameters()
    try:
        m.to_jax()
        pstate = params_to_pstate(params, m.indices_set_by_trainables)
        allp = rec.call("scatter_ref", m.get_all_parameters, pstate, voltage_solver="jaxley.stone", where="get_all_parameters")
        alls = rec.call("scatter_ref", m.get_all_states, pstate, allp, 0.025, where="get_all_states")
    except Refused:
        return
    tag = dict(kind=kind, calls=[{"key": c["key"], "ops": c["ops"]} for c in case["calls"]], n_nodes=len(m.nodes), n_edges=len(m.edges),
               unequal_keys=sorted({d.split(":")[0] + ":" + c["key"] for d, c in zip(desc, case["calls"]) if d.endswith("unequal")}),
               keys=[c["key"] for c in case["calls"]], param_values=[v for vs in values for v in vs][:40])
    _compare_arrays(rec, "scatter_ref", allp, alls, ref_nodes, ref_edges, m, tag)
    # derived arrays too (axial conductances): a module whose TABLES hold the reference scatter must give identical arrays
    try:
        m2 = copy.deepcopy(m)
        m2.delete_trainables()
        for col in ref_nodes.columns:
            if not col.startswith(("local_", "global_")) and col != "controlled_by_param":
                m2.nodes[col] = ref_nodes[col].to_numpy()
        for col in ref_edges.columns:
            if col.startswith(("IonotropicSynapse_", "TestSynapse_")):
                m2.edges[col] = ref_edges[col].to_numpy()
        m2.to_jax()
        for backend in ("jaxley.stone", "jax.sparse"):
            a1 = m.get_all_parameters(pstate, voltage_solver=backend)
            a2 = m2.get_all_parameters([], voltage_solver=backend)
            bad = [k2 for k2 in a2 if k2 not in a1 or not np.allclose(np.asarray(a1[k2], dtype=float), np.asarray(a2[k2], dtype=float), rtol=1e-12, atol=0, equal_nan=True)]
            rec.check("scatter_ref", not bad, what="arrays built from trainables differ from arrays built from tables holding the same values",
                      arrays=bad, backend=backend, **tag)
    except Refused:
        pass
    # write_trainables must store exactly what was simulated
    try:
        rec.call("write_back", m.write_trainables, params, where="write_trainables")
    except Refused:
        return
    bad = {}
    for col in ref_nodes.columns:
        if col in ("controlled_by_param",) or ref_nodes[col].dtype == bool or col.startswith(("local_", "global_")):
            continue
        a, b = m.nodes[col].to_numpy(dtype=float), ref_nodes[col].to_numpy(dtype=float)
        neq = ~((a == b) | (np.isnan(a) & np.isnan(b)))
        if neq.any():
            bad[f"nodes.{col}"] = {"rows": np.where(neq)[0].tolist()[:8], "got": a[neq][:4].tolist(), "want": b[neq][:4].tolist()}
    for col in ref_edges.columns:
        if col.startswith(("IonotropicSynapse_", "TestSynapse_")):
            a, b = m.edges[col].to_numpy(dtype=float), ref_edges[col].to_numpy(dtype=float)
            neq = ~((a == b) | (np.isnan(a) & np.isnan(b)))
            if neq.any():
                bad[f"edges.{col}"] = {"rows": np.where(neq)[0].tolist()[:8], "got": a[neq][:4].tolist(), "want": b[neq][:4].tolist()}
    rec.check("write_back", not bad, what="tables after write_trainables differ from the reference scatter", diff=bad, **tag)


def _compare_arrays(rec, monitor, allp, alls, ref_nodes, ref_edges, m, tag):
    bad = {}
    n_checked = 0
    for col in ref_nodes.columns:
        src = allp if col in allp else alls if col in alls else None
        if src is None or col.startswith(("local_", "global_")) or ref_nodes[col].dtype == bool:
            continue
        a, b = np.asarray(src[col], dtype=float), ref_nodes[col].to_numpy(dtype=float)
        n_checked += 1
        neq = ~((a == b) | (np.isnan(a) & np.isnan(b))) if a.shape == b.shape else np.ones(1, bool)
        if neq.any():
            bad[col] = {"rows": np.where(neq)[0].tolist()[:8], "got": a[neq][:4].tolist() if a.shape == b.shape else list(a.shape),
                        "want": b[neq][:4].tolist() if a.shape == b.shape else list(b.shape),
                        "last_row_hit": bool(a.shape == b.shape and neq[-1])}
    for i, syn in enumerate(m.synapses):
        cond = (ref_edges["type_ind"].to_numpy() == i) if len(ref_edges) else np.zeros(0, bool)
        for col in list(syn.synapse_params) + list(syn.synapse_states):
            src = allp if col in allp else alls
            a, b = np.asarray(src[col], dtype=float), ref_edges[col].to_numpy(dtype=float)[cond]
            n_checked += 1
            neq = ~(a == b) if a.shape == b.shape else np.ones(1, bool)
            if neq.any():
                bad[col] = {"rows": np.where(neq)[0].tolist()[:8], "got": a[neq][:4].tolist() if a.shape == b.shape else list(a.shape),
                            "want": b[neq][:4].tolist() if a.shape == b.shape else list(b.shape),
                            "last_row_hit": bool(a.shape == b.shape and neq[-1])}
    rec.held(monitor, max(n_checked - len(bad), 0))
    if bad:
        rec._c(monitor, "violated", len(bad) - 1)
        unequal = any("unequal" in str(x) for x in [tag])
        rec.violated(monitor, what="parameter/state arrays differ from the reference scatter", diff=bad,
                     only_last_row=all(v.get("rows") == [len(ref_nodes) - 1] or v.get("last_row_hit") and len(v.get("rows", [])) == 1 for v in bad.values()),
                     **tag)


def _routes(case, rec, m, world):
    """set / data_set / make_trainable+params: same parameter arrays and same simulation"""
    import copy
    import jax.numpy as jnp
    import jaxley as jx
    from jaxley.channels import HH
    from jaxley.utils.cell_utils import params_to_pstate
    from jxmon.core import Refused

    call = case["calls"][0]
    key, val = call["key"], case["scalar"]
    if key == "v":
        val = -60.0 - 10 * val
    is_edge, groups = expected_groups(world, m, call)
    if not groups:
        return
    n = len(m.nodes)
    for col in m.edges.columns:
        if col.endswith(("_gS", "_gC")):
            m.edges[col] = m.edges[col] * 50.0
    m.scope("global").comp(0).stimulate(jnp.asarray(np.full(6, 0.05)), verbose=False)
    m.record("v", verbose=False)
    kind = world["struct"]["kind"]
    tag = dict(key=key, ops=call["ops"], kind=kind, value=val)
    backend = "jax.sparse" if kind == "network" else "jaxley.stone"
    sim = lambda mod, **kw: np.asarray(jx.integrate(mod, delta_t=0.025, voltage_solver=backend, **kw))
    try:
        # route 1: set on an independent copy
        m1 = copy.deepcopy(m)
        view_of(m1, world, call["ops"]).set(key, val)
        out1 = rec.call("three_routes", sim, m1, where="integrate after set")
        # route 2: data_set
        ps = view_of(m, world, call["ops"]).data_set(key, val, None)
        out2 = rec.call("three_routes", sim, m, param_state=ps, where="integrate with data_set")
        # route 3: make_trainable + params
        m3 = copy.deepcopy(m)
        view_of(m3, world, call["ops"]).make_trainable(key, verbose=False)
        params = [{k2: jnp.full_like(v2, val) for k2, v2 in p.items()} for p in m3.get_parameters()]
        out3 = rec.call("three_routes", sim, m3, params=params, where="integrate with trainable params")
    except Refused:
        return
    d12, d13 = float(np.max(np.abs(out1 - out2))), float(np.max(np.abs(out1 - out3)))
    rec.check("three_routes", np.all(np.isfinite(out1)) and d12 <= 1e-12 * (1 + np.max(np.abs(out1))), routes="set vs data_set", max_dev=d12, **tag)
    rec.check("three_routes", d13 <= 1e-12 * (1 + np.max(np.abs(out1))), routes="set vs make_trainable", max_dev=d13,
              group_sizes=sorted(len(r) for g, r in groups)[:12], **tag)
    # the changed value must actually matter for at least the parameter arrays: compare arrays of the three routes
    m1.to_jax(); m.to_jax(); m3.to_jax()
    a1 = m1.get_all_parameters([], voltage_solver=backend)
    a2 = m.get_all_parameters(ps, voltage_solver=backend)
    a3 = m3.get_all_parameters(params_to_pstate(params, m3.indices_set_by_trainables), voltage_solver=backend)
    s1 = m1.get_all_states([], a1, 0.025); s2 = m.get_all_states(ps, a2, 0.025)
    s3 = m3.get_all_states(params_to_pstate(params, m3.indices_set_by_trainables), a3, 0.025)
    src = (a1, a2, a3) if key in a1 else (s1, s2, s3)
    same = lambda x, y: np.array_equal(np.asarray(x), np.asarray(y), equal_nan=True)
    rec.check("three_routes", same(src[0][key], src[1][key]) and same(src[0][key], src[2][key]), routes="arrays of the three routes",
              set=np.asarray(src[0][key])[:10], data_set=np.asarray(src[1][key])[:10], trainable=np.asarray(src[2][key])[:10], **tag)
    last = ([o["op"] for o in call["ops"] if o["op"] != "scope"] or ["module"])[-1]
    rec.sig(f"routes|{kind}|{key}|{last}", nontrivial=True)


def classify(case, v):
    d = v.get("detail", {})
    diff = d.get("diff", {})
    if v["monitor"] not in ("scatter_ref", "write_back") or not diff:
        return None
    cols = [c.split(".")[-1] for c in diff]
    # F21: trainable synaptic *state*: global edge index used on the per-type state array (value dropped or misplaced)
    if all(c in ("IonotropicSynapse_s", "TestSynapse_c") for c in cols):
        return "F21"
    # F2: groups of unequal size are padded with index -1 -> the LAST row of the array is overwritten with a parameter
    # value although it was not selected; precondition: that key was made trainable with unequal group sizes
    if v["monitor"] == "scatter_ref" and d.get("only_last_row") and all(any(u.endswith(":" + c) for u in d.get("unequal_keys", [])) for c in cols):
        pv = d.get("param_values", [])
        if all(any(isinstance(g, float) and abs(g - p) <= 1e-12 * abs(p) for p in pv) for c in diff for g in diff[c].get("got", [])):
            return "F2"
    if v["monitor"] == "write_back" and all(any(u.endswith(":" + c) for u in d.get("unequal_keys", [])) for c in cols) \
            and all(diff[c].get("rows") in ([d.get("n_nodes", 0) - 1], ) for c in diff):
        return "F2"
    return None
