"""C18 - modules survive pickling and deep copies unchanged and independent.

Events: pickle.loads(pickle.dumps(m)) and deepcopy(m) of modules produced by random construction /
editing histories (hand-built and SWC cells incl. single-point somata, networks with synapses,
groups, trainables, recordings, stimuli, clamps, after integrate, after set_ncomp).
Oracles: table/attribute equality, bit-identical simulation and gradient, an aliasing monitor that
walks both object graphs and reports shared mutable objects, and independence: editing the copy
through the public API leaves the original's snapshot and simulation unchanged.
"""
import os

import numpy as np

from jxmon.gen import models, swc as swcgen, trees

PID = 18
RULE = ("histories: build (hand-built cell/network/branch/compartment with heterogeneous compartment counts, or read_swc of a "
        "generated file with single- or multi-point soma, or a network mixing both) -> insert channels -> connect synapses -> "
        "groups -> record -> stimulate/clamp -> make_trainable -> optionally integrate / set_ncomp before copying; copy by pickle "
        "and by deepcopy (also of a view). distinct = (base kind, swc?, single-point soma?, synapses?, trainables?, copy method)")
ASSUMPTIONS = ["jax arrays are immutable and may be shared; DataFrames, ndarrays, lists, dicts, sets and Channel/Synapse instances may not",
               "jaxnodes/jaxedges caches are excluded from equality (they are rebuilt by integrate)"]
MECHANISMS = ["jaxley.utils.cell_utils:_radius_generating_fn", "jaxley.utils.cell_utils:_padded_radius_generating_fn",
              "jaxley.modules.base:Module.__getattr__", "jaxley.io.swc:read_swc"]
MECHANISMS_REQUIRED = ["jaxley.modules.base:Module.__getattr__"]
REQUIRED = {"quick": {"tables_equal": 40, "sim_equal": 40, "aliasing": 40, "independence": 20, "grad_equal": 10},
            "thorough": {"tables_equal": 390, "sim_equal": 390, "aliasing": 360, "independence": 1169, "grad_equal": 180}}
WALL_BUDGET = {"quick": 1500, "thorough": 4 * 3600}


def cases(seed, tier):
    n = 30 if tier == "quick" else 450
    out = []
    for k in range(n):
        rng = trees.rng_for(seed, PID, k)
        base = ["cell", "network", "swc", "swc_net", "branch", "swc", "network", "comp"][k % 8]
        spec = models.random_active(rng, kind={"swc": "cell", "swc_net": "network"}.get(base, base), max_comps=12, T=(5, 10),
                                    homogeneous_net=False)
        if base == "cell":
            # a branch with children that is shorter than the longest branch of its level: the custom solvers keep per-branch
            # bookkeeping (real vs padded compartment counts) that a copy must preserve
            for _ in range(40):
                nb = int(rng.integers(3, 6))
                par, _p = trees.shuffle_topological(rng, trees.random_parents(rng, nb))
                nc, _pat = trees.random_ncomp(rng, par, pattern="parent_short", nmax=3)
                if trees.f1_precondition(par, nc) and sum(nc) <= 12:
                    spec = models.random_active(rng, kind="branch", max_comps=12, T=(5, 10))
                    n = sum(nc)
                    spec["struct"] = {"kind": "cell", "cells": [{"parents": [int(p) for p in par], "ncomp": [int(x) for x in nc]}], "pattern": "parent_short", "labelling": "topo"}
                    spec["ins"] = [{"ch": "HH", "rows": list(range(n))}]
                    spec["stim"] = [{"rows": [0], "w": [[0.1] * spec["T"]]}]
                    spec["params"] = {"radius": [float(x) for x in rng.uniform(0.5, 3, n)], "length": [float(x) for x in rng.uniform(5, 30, n)],
                                      "ra": [float(x) for x in rng.uniform(50, 500, n)], "cm": [float(x) for x in rng.uniform(0.7, 2, n)],
                                      "v": [float(x) for x in rng.uniform(-75, -55, n)]}
                    break
        c = {"base": base, "spec": spec, "k": k, "swc": None, "integrate_before": bool(k % 3 == 0), "set_ncomp_before": bool(k % 4 == 1),
             "trainable": bool(k % 2 == 0), "clamp": bool(k % 5 == 1), "view_copy": bool(k % 6 == 2), "ncomp": int(rng.integers(1, 4))}
        if base in ("swc", "swc_net"):
            c["swc"] = swcgen.random_swc(rng, max_sections=6, single_point_soma=bool(k % 2 == 0), max_pts=4, zero_len_prob=0.0,
                                           from_soma_start=bool(k % 8 == 5))  # a neurite leaving the FIRST soma point: read_swc pads a root branch
        out.append(c)
    return out


def build(case):
    """-> module with channels/synapses/groups/recordings/inputs/trainables according to the case"""
    import jax.numpy as jnp
    import jaxley as jx
    from jaxley.channels import HH, K, Leak
    from jaxley.connect import connect
    from jaxley.synapses import IonotropicSynapse, TestSynapse
    from jxmon.env import ROOT

    spec = case["spec"]
    if case["base"] in ("swc", "swc_net"):
        wd = os.path.join(ROOT, "work", "swc")
        os.makedirs(wd, exist_ok=True)
        path = os.path.join(wd, f"c18_{os.getpid()}_{case['k']}.swc")
        swcgen.write(case["swc"], path)
        try:
            cell = jx.read_swc(path, ncomp=case["ncomp"], min_radius=0.1)
        finally:
            os.remove(path)
        case["_padded_root"] = any(getattr(f, "func", None) is not None and getattr(f.func, "__name__", "") == "_padded_radius" for f in (cell._radius_generating_fns or []))
        cell.insert(HH())
        cell.branch(0).insert(K())
        if case["base"] == "swc_net":
            other = jx.Cell([jx.Branch([jx.Compartment()] * case["ncomp"])] * len(cell.comb_parents), parents=[int(p) for p in cell.comb_parents])
            other.insert(HH())
            m = jx.Network([cell, other])
            connect(m.cell(0).branch(0).comp(0), m.cell(1).branch(0).comp(0), IonotropicSynapse())
            connect(m.cell(1).branch(0).comp(0), m.cell(0).branch(0).comp(0), TestSynapse())
            connect(m.cell(0).branch(0).comp(0), m.cell(1).branch(0).comp(0), IonotropicSynapse())
        else:
            m = cell
        m.set("v", -65.0 - 0.1 * np.arange(len(m.nodes)))
        m.record("v", verbose=False)
        m.scope("global").comp(0).stimulate(jnp.full((1, spec["T"]), 0.1), verbose=False)
    else:
        m, _ = models.build_active(spec, stimulate=True, record="all")
    n = len(m.nodes)
    if case["k"] % 2 == 0:
        # instance state that is not a function of (class, name): a channel renamed after construction
        lk = Leak()
        lk.change_name("dendLeak")
        m.select(nodes=[n - 1]).insert(lk)
    m.select(nodes=np.arange(0, n, 2)).add_to_group("even")
    if n > 2:
        m.select(nodes=[n - 1, 0]).add_to_group("ends")
    if case["clamp"]:
        T = spec["T"]
        m.select(nodes=[n - 1]).clamp("HH_m" if "HH_m" in m.nodes.columns and not np.isnan(m.nodes.loc[n - 1, "HH_m"]) else "v",
                                      jnp.linspace(0.2, 0.4, T)[None, :], verbose=False)
    if case["trainable"]:
        m.even.make_trainable("radius", verbose=False)
        rows = m.nodes.index[~m.nodes["HH_gNa"].isna()].to_numpy() if "HH_gNa" in m.nodes.columns else []
        if len(rows):
            m.select(nodes=rows[: max(1, len(rows) // 2)]).make_trainable("HH_gNa", verbose=False)
        if len(m.edges):
            col = [c for c in m.edges.columns if c.endswith(("_gS", "_gC"))][0]
            getattr(m, col.rsplit("_", 1)[0]).make_trainable(col, verbose=False)
    return m


def snapshot(m):
    return {
        "nodes": m.nodes.copy(deep=True), "edges": m.edges.copy(deep=True), "recordings": m.recordings.copy(deep=True),
        "externals": {k: np.array(v) for k, v in m.externals.items()}, "external_inds": {k: np.array(v) for k, v in m.external_inds.items()},
        "groups": {k: np.array(v) for k, v in m.groups.items()},
        "trainable_params": [{k: np.array(v) for k, v in p.items()} for p in m.trainable_params],
        "indices_set_by_trainables": [np.array(i) for i in m.indices_set_by_trainables],
        "ncomp_per_branch": np.array(m.ncomp_per_branch), "comb_parents": np.array(m.comb_parents),
        "xyzr": [np.array(a) for a in m.xyzr], "channels": [(c._name, dict(c.channel_params), dict(c.channel_states), getattr(c, "current_name", None), type(c).__name__) for c in m.channels],
        "synapses": [(s._name, dict(s.synapse_params), dict(s.synapse_states)) for s in m.synapses],
        "membrane_current_names": list(m.membrane_current_names), "synapse_names": list(m.synapse_names),
        "num_trainable_params": int(m.num_trainable_params), "has_radius_fns": m._radius_generating_fns is not None,
    }


def snap_diff(a, b):
    bad = []
    for k in ("nodes", "edges", "recordings"):
        if not (list(a[k].columns) == list(b[k].columns) and list(a[k].index) == list(b[k].index) and a[k].equals(b[k])):
            bad.append(k)
    for k in ("externals", "external_inds", "groups"):
        if set(a[k]) != set(b[k]) or any(a[k][q].shape != b[k][q].shape or not np.array_equal(a[k][q], b[k][q], equal_nan=True) for q in a[k]):
            bad.append(k)
    if len(a["trainable_params"]) != len(b["trainable_params"]) or any(set(x) != set(y) or any(not np.array_equal(x[q], y[q]) for q in x)
                                                                        for x, y in zip(a["trainable_params"], b["trainable_params"])):
        bad.append("trainable_params")
    if len(a["indices_set_by_trainables"]) != len(b["indices_set_by_trainables"]) or any(
            not np.array_equal(x, y) for x, y in zip(a["indices_set_by_trainables"], b["indices_set_by_trainables"])):
        bad.append("indices_set_by_trainables")
    for k in ("ncomp_per_branch", "comb_parents"):
        if not np.array_equal(a[k], b[k]):
            bad.append(k)
    if len(a["xyzr"]) != len(b["xyzr"]) or any(not np.array_equal(x, y, equal_nan=True) for x, y in zip(a["xyzr"], b["xyzr"])):
        bad.append("xyzr")
    for k in ("channels", "synapses", "membrane_current_names", "synapse_names", "num_trainable_params", "has_radius_fns"):
        if a[k] != b[k]:
            bad.append(k)
    return bad


def mutable_ids(root, skip_keys=("jaxnodes", "jaxedges", "base")):
    """ids of mutable objects reachable from root through __dict__, containers and DataFrames"""
    import functools
    import pandas as pd
    import types
    seen, out = set(), {}
    stack = [(root, "m")]
    while stack:
        obj, path = stack.pop()
        if id(obj) in seen:
            continue
        seen.add(id(obj))
        if obj is None or isinstance(obj, (str, bytes, int, float, bool, complex, type, types.FunctionType, types.BuiltinFunctionType, types.ModuleType)):
            continue
        mod = type(obj).__module__ or ""
        if (mod == "jax" or mod.startswith(("jax.", "jaxlib"))) and not isinstance(obj, (list, dict)):
            continue  # immutable device arrays
        if isinstance(obj, (pd.DataFrame, pd.Series, np.ndarray)):
            out[id(obj)] = path
            if isinstance(obj, np.ndarray) and obj.base is not None and isinstance(obj.base, np.ndarray):
                out[id(obj.base)] = path + ".base"
            continue
        if isinstance(obj, dict):
            out[id(obj)] = path
            for k, v in obj.items():
                if k in skip_keys and path == "m":
                    continue
                stack.append((v, f"{path}[{k!r}]"))
            continue
        if isinstance(obj, (list, tuple, set)):
            if not isinstance(obj, tuple):
                out[id(obj)] = path
            for i, v in enumerate(obj):
                stack.append((v, f"{path}[{i}]"))
            continue
        if isinstance(obj, functools.partial):  # (not hasattr: a jaxley Module answers every attribute name, F20)
            stack.append((obj.keywords, path + ".keywords"))
            stack.append((obj.args, path + ".args"))
            continue
        d = getattr(obj, "__dict__", None)
        if isinstance(d, dict):
            out[id(obj)] = path
            for k, v in d.items():
                if k in skip_keys and path == "m":
                    continue
                stack.append((v, f"{path}.{k}"))
    return out


def simulate(m, backend, params=None):
    import jaxley as jx
    kw = {} if m.externals else {"t_max": 0.1}
    return np.asarray(jx.integrate(m, params=params if params is not None else m.get_parameters(), delta_t=0.025, voltage_solver=backend, **kw))


def run_case(case, rec):
    import copy
    import pickle
    import jax
    import jax.numpy as jnp
    import jaxley as jx
    from jxmon.core import Refused

    m = rec.call("build", build, case)
    backend = "jax.sparse" if (case["base"] in ("network",) and models.backends_for(case["spec"]) == ["jax.sparse"]) else ["jaxley.stone", "jaxley.thomas", "jax.sparse"][case["k"] % 3]
    if case["base"] == "cell":
        backend = ["jaxley.stone", "jaxley.thomas"][(case["k"] // 8) % 2]
    tag = dict(base=case["base"], backend=backend, single_point_soma=bool(case["swc"] and case["swc"]["single_point_soma"]), k=case["k"])
    if case["set_ncomp_before"] and case["base"] in ("cell", "swc") and len(m.comb_parents) > 1:
        # set_ncomp refuses modules with recordings/stimuli/trainables: do it on a clean twin
        try:
            twin = build({**case, "trainable": False, "clamp": False})
            twin.delete_recordings(); twin.delete_stimuli(); twin.delete_clamps(); twin.delete_trainables()
            twin.branch(1).set_ncomp(case["ncomp"] + 2)
            twin.record("v", verbose=False)
            twin.scope("global").comp(0).stimulate(jnp.full((1, case["spec"]["T"]), 0.1), verbose=False)
            m = twin
        except Exception as e:  # noqa: BLE001
            rec.refused("tables_equal", e, where="set_ncomp before copy")
    if case["integrate_before"]:
        try:
            rec.call("sim_equal", simulate, m, backend, where="integrate before copy")
        except Refused:
            return
    ref = snapshot(m)
    try:
        out0 = rec.call("sim_equal", simulate, m, backend, where="original")
    except Refused:
        return
    for method in ("pickle", "deepcopy"):
        try:
            if method == "pickle":
                c = rec.call("tables_equal", lambda: pickle.loads(pickle.dumps(m)), where="pickle round trip")
            else:
                c = rec.call("tables_equal", copy.deepcopy, m, where="deepcopy")
        except Refused as r:
            # "any module reachable through the public API survives": a module that cannot be copied does not
            rec.counts["tables_equal"]["refused"] -= 1
            rec.violated("tables_equal", what=f"{method} raised", error=repr(r.exc)[:200], **tag)
            continue
        bad = snap_diff(ref, snapshot(c))
        rec.check("tables_equal", not bad and type(c) is type(m), what="copy differs from the original", method=method, differing=bad, **tag)
        # aliasing
        a, b = mutable_ids(m), mutable_ids(c)
        shared = sorted(a[i] for i in set(a) & set(b))
        if len(a) < 8 or len(b) < 8:
            rec.skipped("aliasing", f"object-graph walk saw only {len(a)}/{len(b)} mutable objects")  # a monitor that saw nothing decides nothing
        else:
            rec.check("aliasing", not shared, what="mutable objects shared between original and copy", method=method, shared=shared[:10],
                      n_mutable=len(a), **tag)
        # simulation
        try:
            out1 = rec.call("sim_equal", simulate, c, backend, where=f"copy by {method}")
            rec.check("sim_equal", out1.shape == out0.shape and np.array_equal(out1, out0, equal_nan=True), what="copy simulates differently",
                      method=method, max_dev=float(np.nanmax(np.abs(out1 - out0))) if out1.shape == out0.shape else None, **tag)
        except Refused:
            pass
        # gradients
        if case["trainable"] and m.trainable_params:
            try:
                def grad_of(mod):
                    p0 = mod.get_parameters()
                    f = lambda p: jnp.sum(jx.integrate(mod, params=p, delta_t=0.025, voltage_solver=backend) ** 2)
                    return jax.tree_util.tree_leaves(jax.grad(f)(p0))
                g0 = rec.call("grad_equal", grad_of, m, where="grad original")
                g1 = rec.call("grad_equal", grad_of, c, where=f"grad copy by {method}")
                same = len(g0) == len(g1) and all(np.array_equal(np.asarray(x), np.asarray(y), equal_nan=True) for x, y in zip(g0, g1))
                rec.check("grad_equal", same, what="gradient of the copy differs", method=method, **tag)
            except Refused:
                pass
        # independence: edit the copy through the public API
        try:
            from jaxley.channels import Leak
            c.set("radius", 7.77)
            c.select(nodes=[0]).insert(Leak())
            c.delete_recordings()
            c.select(nodes=[0]).record("v", verbose=False)
            c.add_to_group("even") if False else c.select(nodes=[0]).add_to_group("newgroup")
            c.delete_trainables()
            if case["base"] in ("cell", "swc") and len(c.comb_parents) > 1:
                c.delete_stimuli(); c.delete_clamps(); c.delete_recordings()
                c.branch(1).set_ncomp(case["ncomp"] + 1)
            bad = snap_diff(ref, snapshot(m))
            rec.check("independence", not bad, what="editing the copy changed the original", method=method, differing=bad, **tag)
            out2 = rec.call("independence", simulate, m, backend, where="original after editing the copy")
            rec.check("independence", np.array_equal(out2, out0, equal_nan=True), what="original simulates differently after the copy was edited",
                      method=method, **tag)
        except Refused:
            pass
        except (AssertionError, ValueError, KeyError) as e:
            rec.refused("independence", e, where="editing the copy")
    # independence, other direction: editing the ORIGINAL must not reach a copy taken before (fresh original, because the edits
    # are destructive)
    for method in ("pickle", "deepcopy"):
        try:
            m2 = build({**case, "trainable": False, "clamp": False})
            c2 = pickle.loads(pickle.dumps(m2)) if method == "pickle" else copy.deepcopy(m2)
            ref2 = snapshot(c2)
            o_before = rec.call("independence", simulate, c2, backend, where="copy before editing the original")
            from jaxley.channels import Leak
            m2.set("radius", 7.77)
            m2.select(nodes=[0]).insert(Leak())
            m2.select(nodes=[0]).add_to_group("newgroup")
            if case["base"] in ("cell", "swc") and len(m2.comb_parents) > 1:
                m2.delete_stimuli(); m2.delete_clamps(); m2.delete_recordings(); m2.delete_trainables()
                hc = trees.has_children([int(p) for p in m2.comb_parents])
                for b in [i for i in range(len(hc)) if hc[i]][:1] + [len(hc) - 1]:
                    try:
                        m2.branch(b).set_ncomp(case["ncomp"] + 2)
                    except (AssertionError, ValueError):
                        pass
            bad = snap_diff(ref2, snapshot(c2))
            rec.check("independence", not bad, what="editing the original changed the copy", method=method, differing=bad, **tag)
            o_after = rec.call("independence", simulate, c2, backend, where="copy after editing the original")
            rec.check("independence", np.array_equal(o_before, o_after, equal_nan=True), what="copy simulates differently after the original was edited",
                      method=method, **tag)
        except Refused:
            pass
        except (AssertionError, ValueError, KeyError) as e:
            rec.refused("independence", e, where="editing the original")
    # a view copies like its module
    if case["view_copy"]:
        try:
            v = m.select(nodes=[0])
            vb = rec.call("tables_equal", lambda: pickle.loads(pickle.dumps(v)), where="pickle of a view")
            rec.check("tables_equal", vb.nodes.equals(v.nodes) and not snap_diff(ref, snapshot(vb.base)), what="pickled view differs", **tag)
            ob = rec.call("sim_equal", simulate, vb.base, backend, where="base of a pickled view")
            rec.check("sim_equal", np.array_equal(ob, out0, equal_nan=True), what="base of a pickled view simulates differently", method="pickle(view)", **tag)
        except Refused as r:
            rec.violated("tables_equal", what="pickle of a view raised", error=repr(r.exc)[:200], **tag)
    rec.sig(f"{case['base']}|sps{int(tag['single_point_soma'])}|syn{int(len(m.edges) > 0)}|tr{int(case['trainable'])}|{backend}|pad{int(bool(case.get('_padded_root')))}")


def classify(case, v):
    return None
