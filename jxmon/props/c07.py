"""C07 - simulations compose in time.

Events: integrate over N steps in one call; the same run split into 2-4 pieces chained through
return_states / all_states (stimulus tail fed with data_stimulate); manual stepping with
init_fn/step_fn; all recordable states recorded.  Oracles: differential (1e-9) and the direct state
monitor: the returned all_states evaluated at the recorded rows equals the last returned column,
for every checkpointing layout (exact products and products larger than the run).
"""
import numpy as np

from jxmon.gen import models, trees

PID = 7
RULE = ("active models (HH + random other channels, 0-5 synapses of up to 3 types, <=12 compartments), N=6..20 steps, 1-3 random "
        "split points, all solvers and the backends that accept the model, checkpoint_lengths in {None, [N], [a,b] exact, "
        "[a,b] and [a,b,c] with product > N}. distinct = (kind, solver, backend, number of pieces, checkpoint layout class)")
ASSUMPTIONS = ["the one-call run is the reference; pieces must reproduce its columns to 1e-9 relative",
               "synaptic entries of all_states are per-type arrays ordered as in .edges"]
MECHANISMS = ["jaxley.integrate:integrate", "jaxley.integrate:build_init_and_step_fn", "jaxley.utils.jax_utils:nested_checkpoint_scan",
              "jaxley.modules.base:Module.get_all_states", "jaxley.modules.base:Module.step"]
MECHANISMS_REQUIRED = ["jaxley.integrate:integrate", "jaxley.utils.jax_utils:nested_checkpoint_scan"]
REQUIRED = {"quick": {"split": 40, "manual_step": 8, "state_is_last": 30},
            "thorough": {"split": 1138, "manual_step": 88, "state_is_last": 695}}
WALL_BUDGET = {"quick": 1500, "thorough": 4 * 3600}
TOL = 1e-9


def factor(n, rng):
    fs = [(a, n // a) for a in range(2, n) if n % a == 0]
    return list(fs[int(rng.integers(0, len(fs)))]) if fs else None


def cases(seed, tier):
    n = 24 if tier == "quick" else 400
    out = []
    for k in range(n):
        rng = trees.rng_for(seed, PID, k)
        spec = models.random_active(rng, kind=["cell", "network", "cell", "branch", "network", "comp"][k % 6], T=(6, 20),
                                    homogeneous_net=(k % 4 == 1))
        N = spec["T"]
        npieces = int(rng.integers(2, 5))
        cuts = sorted(set(int(x) for x in rng.choice(np.arange(1, N), min(npieces - 1, N - 1), replace=False)))
        be = models.backends_for(spec)
        solver = ["bwd_euler", "crank_nicolson", "bwd_euler", "fwd_euler"][k % 4]
        if solver == "fwd_euler" and (any(len(c["parents"]) > 1 for c in spec["struct"]["cells"])):
            solver = "crank_nicolson"
        backend = be[k % len(be)]
        if solver == "fwd_euler" and backend == "jax.sparse":
            backend = "jaxley.thomas" if "jaxley.thomas" in be else backend
            if backend == "jax.sparse":
                solver = "bwd_euler"
        layouts = [None, [N]]
        f = factor(N, rng)
        if f:
            layouts.append(f)
        a = int(rng.integers(2, 5))
        layouts.append([a, N // a + 1])          # product > N
        layouts.append([2, 2, N // 4 + 1])       # depth 3, product >= N
        out.append({"spec": spec, "cuts": cuts, "solver": solver, "backend": backend, "layouts": layouts,
                    "manual": bool(k % 3 == 0), "piece_layout": f, "trainable": bool(k % 2 == 1),
                    # a quarter of the cases: inputs are CLAMPS only (a permanent clamp on the module + a per-call data_clamp), no stimulus
                    "perm_clamp": bool(k % 4 == 2)})
    return out


def _perm_clamp(case, rec, m, recs, kw):
    """equal pieces; the module keeps a permanent (constant) voltage clamp, every call brings its own data_clamp on another compartment
    and no data_stimuli; the same module object is used for all pieces, nothing is deleted in between"""
    import jax.numpy as jnp
    import jaxley as jx
    from jxmon.core import Refused
    spec = case["spec"]
    n = len(m.nodes)
    npieces = 2 if spec["T"] % 3 else 3
    L = spec["T"] // npieces
    N = L * npieces
    wc = -60.0 + 15.0 * np.sin(np.arange(N) * 0.7)
    mf, _ = models.build_active(spec, stimulate=False)
    mf.select(nodes=[0]).clamp("v", jnp.full(N, -55.0), verbose=False)
    m.select(nodes=[0]).clamp("v", jnp.full(L, -55.0), verbose=False)
    tag = dict(kind=spec["struct"]["kind"], solver=kw["solver"], backend=kw["voltage_solver"], N=N, pieces=npieces, mode="permanent clamp + data_clamp, no stimulus")
    try:
        A = np.asarray(rec.call("split", jx.integrate, mf, data_clamps=mf.select(nodes=[n - 1]).data_clamp("v", jnp.asarray(wc), None),
                                where="one call (clamps only)", **kw))
    except Refused:
        return
    if not np.all(np.isfinite(A)) or np.max(np.abs(A)) > 1e4:
        rec.skipped("split", "reference run not finite / unstable")
        return
    scale = 1 + np.abs(A)
    states = None
    before = {k: np.asarray(v).tolist() for k, v in m.external_inds.items()}
    for pi in range(npieces):
        lo, hi = pi * L, (pi + 1) * L
        try:
            out, states = jx.integrate(m, data_clamps=m.select(nodes=[n - 1]).data_clamp("v", jnp.asarray(wc[lo:hi]), None), all_states=states,
                                       return_states=True, **kw)
        except Exception as e:  # the single call was accepted: a continuation of it must be, too
            rec.violated("split", what="a continuation call raised although the single call over the same inputs was accepted", piece=pi,
                         error=f"{type(e).__name__}: {str(e)[:160]}", external_inds_before=before,
                         external_inds_now={k: np.asarray(v).tolist() for k, v in m.external_inds.items()}, **tag)
            return
        out = np.asarray(out)
        want = A[:, lo:hi + 1]
        good = out.shape == want.shape and np.max(np.abs(out - want) / scale[:, lo:hi + 1]) <= TOL
        rec.check("split", good, piece=pi, lo=lo, hi=hi, max_dev=float(np.max(np.abs(out - want))) if out.shape == want.shape else None, **tag)
    now = {k: np.asarray(v).tolist() for k, v in m.external_inds.items()}
    rec.check("split", now == before, what="integrate changed the module's own external_inds (a per-call data_clamp leaked into the module)",
              external_inds_before=before, external_inds_now=now, **tag)
    rec.sig(f"{tag['kind']}|{tag['solver']}|{tag['backend']}|permclamp{npieces}")


def run_case(case, rec):
    import jax.numpy as jnp
    import jaxley as jx
    from jaxley.integrate import build_init_and_step_fn
    from jxmon.core import Refused

    spec = case["spec"]
    N, dt = spec["T"], spec["dt"]
    solver, backend = case["solver"], case["backend"]
    m, recs = rec.call("build", models.build_active, spec, stimulate=False)
    kw = dict(delta_t=dt, solver=solver, voltage_solver=backend)
    if case.get("perm_clamp") and len(m.nodes) >= 2 and N >= 4:
        return _perm_clamp(case, rec, m, recs, kw)
    params = []
    if case.get("trainable"):
        # trainable initial states and one parameter, with values that differ from the tables: on continuation the passed
        # all_states must win over the trainable initial states
        rows = spec["ins"][0]["rows"]
        m.select(nodes=np.asarray(rows[: max(1, len(rows) // 2)])).make_trainable("v", verbose=False)
        m.select(nodes=np.asarray(rows)).make_trainable("HH_m", verbose=False)
        m.select(nodes=np.asarray(rows)).make_trainable("HH_gNa", verbose=False)
        params = [{k2: v2 * 0.9 + 0.01 for k2, v2 in p.items()} for p in m.get_parameters()]
    kw["params"] = params

    def ds(lo, hi):
        d = None
        for s in spec["stim"]:
            w = np.asarray(s["w"])[:, lo:hi]
            d = m.select(nodes=np.asarray(s["rows"])).data_stimulate(jnp.asarray(w), d)
        return d

    tag = dict(kind=spec["struct"]["kind"], solver=solver, backend=backend, N=N, cuts=case["cuts"])
    try:
        A = np.asarray(rec.call("split", jx.integrate, m, data_stimuli=ds(0, N), where=f"one call {solver}/{backend}", **kw))
    except Refused:
        return
    scale = 1 + np.abs(A)
    if not np.all(np.isfinite(A)):
        rec.skipped("split", "reference run not finite")
        return
    if np.max(np.abs(A)) > 1e4:
        # an explicit scheme beyond its stability limit: the trajectory grows without bound (1e26 mV observed) and amplifies the
        # rounding differences between differently compiled programs (scan vs eager stepping) to any size - nothing to compare
        rec.skipped("split", "reference run is numerically unstable (|value| > 1e4): differential comparison is meaningless")
        return
    # ---- pieces
    bounds = [0] + case["cuts"] + [N]
    states = None
    ok_all = True
    for pi, (lo, hi) in enumerate(zip(bounds[:-1], bounds[1:])):
        cl = None
        if case["piece_layout"] and pi == 0 and (hi - lo) > 3:
            f = [a for a in range(2, hi - lo) if (hi - lo) % a == 0]
            cl = [f[0], (hi - lo) // f[0]] if f else None
        try:
            out, states = rec.call("split", jx.integrate, m, data_stimuli=ds(lo, hi), all_states=states, return_states=True,
                                   checkpoint_lengths=cl, where="piece", **kw)
        except Refused:
            ok_all = False
            break
        out = np.asarray(out)
        want = A[:, lo:hi + 1]
        good = out.shape == want.shape and np.max(np.abs(out - want) / scale[:, lo:hi + 1]) <= TOL
        j = np.unravel_index(np.argmax(np.abs(out - want) / scale[:, lo:hi + 1]), want.shape) if out.shape == want.shape else (0, 0)
        rec.check("split", good, piece=pi, lo=lo, hi=hi, checkpoint=cl, state=recs[j[0]][0], index=recs[j[0]][1], col=int(j[1]),
                  got=float(out[j]) if out.shape == want.shape else None, want=float(want[j]) if out.shape == want.shape else None,
                  first_col_ok=bool(out.shape == want.shape and np.max(np.abs(out[:, 0] - want[:, 0]) / scale[:, lo]) <= TOL), **tag)
        ok_all = ok_all and good
    rec.sig(f"{tag['kind']}|{solver}|{backend}|pieces{len(bounds) - 1}")
    # ---- state_is_last for every checkpoint layout
    syn_rank = {}
    if len(m.edges):
        r = m.edges.groupby("type").rank()["global_edge_index"].astype(int) - 1
        syn_rank = {int(e): int(x) for e, x in zip(m.edges.index, r)}
    edge_states = set(m.synapse_state_names) | set(m.synapse_current_names)
    for cl in case["layouts"]:
        if cl is not None and int(np.prod(cl)) < N:
            continue
        try:
            out, st = rec.call("state_is_last", jx.integrate, m, data_stimuli=ds(0, N), return_states=True, checkpoint_lengths=cl,
                               where=f"return_states cl={cl}", **kw)
        except Refused:
            continue
        out = np.asarray(out)
        same_rec = out.shape == A.shape and np.max(np.abs(out - A) / scale) <= TOL
        rec.check("split", same_rec, what="recordings depend on checkpoint_lengths", checkpoint=cl,
                  max_dev=float(np.max(np.abs(out - A))) if out.shape == A.shape else None, **tag)
        vals = np.array([float(np.asarray(st[s])[syn_rank[i] if s in edge_states else i]) for s, i in recs])
        dev = np.abs(vals - A[:, -1]) / scale[:, -1]
        good = np.max(dev) <= TOL
        detail = {}
        over = cl is not None and int(np.prod(cl)) > N
        if not good and over:
            # prediction of finding F6: the returned state is the state after prod(cl) steps with zero-padded stimulus
            P = int(np.prod(cl))
            try:
                d = None
                for s in spec["stim"]:
                    w = np.concatenate([np.asarray(s["w"]), np.zeros((len(s["rows"]), P - N))], axis=1)
                    d = m.select(nodes=np.asarray(s["rows"])).data_stimulate(jnp.asarray(w), d)
                B = np.asarray(jx.integrate(m, data_stimuli=d, **kw))
                detail["matches_state_after_prod_steps"] = bool(np.max(np.abs(vals - B[:, -1]) / (1 + np.abs(B[:, -1]))) <= 1e-8)
            except Exception as e:  # noqa: BLE001
                detail["matches_state_after_prod_steps"] = None
        j = int(np.argmax(dev))
        rec.check("state_is_last", good, checkpoint=cl, prod=int(np.prod(cl)) if cl else None, state=recs[j][0], index=recs[j][1],
                  returned=float(vals[j]), last_column=float(A[j, -1]), product_exceeds_run=bool(over), **detail, **tag)
        rec.sig(f"{tag['kind']}|{solver}|{backend}|cl:{'none' if cl is None else 'exact' if int(np.prod(cl)) == N else 'over'}{0 if cl is None else len(cl)}")
    # ---- manual stepping
    if case["manual"]:
        try:
            def go():
                d = ds(0, N)
                m.to_jax()
                init_fn, step_fn = build_init_and_step_fn(m, voltage_solver=backend, solver=solver)
                st, params_all = init_fn(params, None, None, dt)
                ext, inds = jnp.asarray(d[1]), d[2].index.to_numpy()
                cols = [[float(np.asarray(st[s])[syn_rank[i] if s in edge_states else i]) for s, i in recs]]
                for k in range(N):
                    e, ei = {"i": ext[:, k]}, {"i": inds}
                    st_in = dict(st)
                    st = step_fn(st, params_all, e, ei, dt)
                    # the caller's containers are inputs: a step must not consume or replace their entries
                    if set(e) != {"i"} or set(ei) != {"i"} or not np.array_equal(np.asarray(e["i"]), np.asarray(ext[:, k])):
                        mutated.append(("externals", k, sorted(e), sorted(ei)))
                    if set(st_in) != set(st):
                        mutated.append(("state keys", k, sorted(set(st_in) ^ set(st))))
                    cols.append([float(np.asarray(st[s])[syn_rank[i] if s in edge_states else i]) for s, i in recs])
                return np.asarray(cols).T
            mutated = []
            M = rec.call("manual_step", go, where="init_fn/step_fn loop")
            rec.check("manual_step", not mutated, what="step_fn changed the dictionaries handed in by the caller", first=str(mutated[:2]), **tag)
            dev = np.abs(M - A) / scale
            j = np.unravel_index(np.argmax(dev), dev.shape)
            rec.check("manual_step", np.max(dev) <= TOL, state=recs[j[0]][0], index=recs[j[0]][1], col=int(j[1]), got=float(M[j]), want=float(A[j]), **tag)
        except Refused:
            pass


def classify(case, v):
    d = v.get("detail", {})
    if v["monitor"] == "state_is_last" and d.get("product_exceeds_run") and d.get("matches_state_after_prod_steps"):
        return "F6"
    return None
