"""C03 - gates stay finite, in [0,1], and follow the exact exponential update.

Deciding monitor `gate_contract`: icontract postconditions attached (from outside) to the real
update_states methods of the 9 built-in mechanisms; the workload calls them eagerly with hostile
vectors of voltages (singular points, their ulp neighbourhoods, clip thresholds, dense random
doubles), time steps, states and parameters.  The closed form is computed from the code's OWN
rate functions evaluated separately (this isolates the integrator; the rates are C04's business).
Supplementary `gate_traj`: gates recorded from integrate() under a voltage clamp that passes
exactly through the singular voltages.
"""
import math

import numpy as np

from jxmon.gen import trees

PID = 3
CHANNELS = ["HH", "Na", "K", "Km", "CaL", "CaT", "Leak"]
SYNAPSES = ["IonotropicSynapse", "TestSynapse"]
VCLASSES = ["singular", "ulp", "near", "generic", "clip"]
RULE = ("per case one mechanism, one voltage class (singular | <=8 ulp | near 1e-13..1e-3 | generic dense random in "
        "[-200,200] | clip thresholds of save_exp), one dt (log-uniform [1e-6,1e3] + corners), vectors of 384 "
        "(voltage, state, parameter) triples with states from {0, 1, 5e-324, 1-2^-53, random}; evaluations = gate "
        "values judged by the contract; distinct = (mechanism, gate, voltage class, dt decade); all are non-trivial "
        "except Leak (no gates)")
ASSUMPTIONS = [
    "closed form x_inf+(x-x_inf)exp(-dt/tau) evaluated in float64 numpy from the code's own (x_inf, tau)",
    "Ionotropic/TestSynapse have no separate rate function: their (s_inf, tau) come from the Abbott-Marder formula",
]
MECHANISMS = ["jaxley.solver_gate:save_exp", "jaxley.solver_gate:exponential_euler",
              "jaxley.solver_gate:solve_gate_exponential", "jaxley.solver_gate:solve_inf_gate_exponential",
              "jaxley.channels.hh:_vtrap", "jaxley.channels.pospischil:efun"]
MECHANISMS_REQUIRED = ["jaxley.solver_gate:save_exp", "jaxley.solver_gate:exponential_euler"]
REQUIRED = {"quick": {"gate_contract": 100000},
            "thorough": {"gate_contract": 1774848}}
NVEC = 384


def singular_points(mech, vt):
    return {"HH": [-40.0, -55.0], "Na": [vt + 13.0, vt + 40.0], "K": [vt + 15.0], "CaL": [-27.0],
            "Km": [-35.0], "CaT": [-81.0, -84.0], "Leak": [0.0],
            "IonotropicSynapse": [-35.0], "TestSynapse": [-35.0], "TanhRateSynapse": [-70.0]}[mech]


def make_voltages(rng, mech, vclass, vt, n):
    sp = singular_points(mech, vt)
    if vclass == "singular":
        base = np.array(sp * (n // len(sp) + 1))[:n]
        return base
    if vclass == "ulp":
        out = []
        for s in sp:
            for k in (1, 2, 3, 4, 8):
                lo = hi = s
                for _ in range(k):
                    lo = math.nextafter(lo, -math.inf)
                    hi = math.nextafter(hi, math.inf)
                out += [lo, hi]
        return np.array((out * (n // len(out) + 1))[:n])
    if vclass == "near":
        s = np.array(sp)[rng.integers(0, len(sp), n)]
        off = np.exp(rng.uniform(np.log(1e-13), np.log(1e-3), n)) * rng.choice([-1.0, 1.0], n)
        return s + off
    if vclass == "clip":
        # voltages at which some exponent argument of save_exp reaches its clip value (20) and around
        pts = [-200.0, -199.99, -150.0, -135.0, -125.0, -120.0, -103.0, -100.0, 60.0, 100.0, 150.0, 199.99, 200.0,
               vt - 60.0, vt + 13 - 80, -22.0, -15.2, -1.0, 0.0]
        base = np.array(pts)[rng.integers(0, len(pts), n)]
        return np.clip(base + rng.normal(0, 0.5, n) * (rng.random(n) < 0.5), -200, 200)
    return rng.uniform(-200.0, 200.0, n)


def make_states(rng, n):
    special = np.array([0.0, 1.0, 5e-324, 1 - 2.0**-53, 0.5])
    x = rng.uniform(0, 1, n)
    m = rng.random(n) < 0.35
    x[m] = special[rng.integers(0, len(special), m.sum())]
    return x


def cases(seed, tier):
    reps = 1 if tier == "quick" else 24
    out = []
    k = 0
    for rep in range(reps):
        for mech in CHANNELS + SYNAPSES:
            for vclass in VCLASSES:
                for dti in range(6 if tier == "quick" else 8):
                    rng = trees.rng_for(seed, PID, k)
                    k += 1
                    corners = [1e-6, 0.025, 1.0, 1e3]
                    dt = corners[dti] if dti < 4 else float(trees.logu(rng, 1e-6, 1e3))
                    out.append({"mech": mech, "vclass": vclass, "dt": dt, "k": k,
                                "scalar_params": bool(k % 3 == 0), "rename": bool(k % 7 == 3)})
    # trajectories under voltage clamp through the singular points
    combos = [("bwd_euler", "jaxley.stone"), ("crank_nicolson", "jaxley.stone"), ("fwd_euler", "jaxley.thomas"),
              ("crank_nicolson", "jax.sparse"), ("bwd_euler", "jax.sparse"), ("bwd_euler", "jaxley.thomas")]
    for j in range(6 if tier == "quick" else 36):
        out.append({"mech": "TRAJ", "k": 10**6 + j, "dt": [0.025, 0.1, 1.0, 0.01, 0.5][j % 5], "solver": combos[j % 6][0],
                    "backend": combos[j % 6][1]})
    return out


# ---------------------------------------------------------------- worker side
_COLLECT = None  # set per case: dict(rec=..., case=...)
_INSTALLED = False


def _own_rates(obj, key, v, pre_v, params):
    """(x_inf, tau) of gate `key` from the code's own rate functions, as float64 numpy arrays."""
    cls = type(obj).__name__
    p = obj._name
    g = key[len(p) + 1:]
    f64 = lambda a: np.asarray(a, dtype=np.float64)
    if cls == "HH":
        a, b = getattr(obj, f"{g}_gate")(v)
    elif cls in ("Na", "K"):
        a, b = getattr(obj, f"{g}_gate")(v, params["vt"])
    elif cls == "CaL":
        a, b = getattr(obj, f"{g}_gate")(v)
    elif cls == "Km":
        inf, tau = obj.p_gate(v, params[f"{p}_taumax"])
        return f64(inf), f64(tau)
    elif cls == "CaT":
        inf, tau = obj.u_gate(v, params[f"{p}_vx"])
        return f64(inf), f64(tau)
    elif cls in ("IonotropicSynapse", "TestSynapse"):
        vp = f64(pre_v)
        inf = 1.0 / (1.0 + np.exp((-35.0 - vp) / 10.0))
        km = f64(params[f"{p}_k_minus"]) if cls == "IonotropicSynapse" else 1.0 / 40.0
        with np.errstate(divide="ignore"):
            return inf, (1.0 - inf) / km
    else:
        return None, None
    a, b = f64(a), f64(b)
    with np.errstate(all="ignore"):
        return a / (a + b), 1.0 / (a + b)


def _judge(obj, states, dt, v, pre_v, params, result):
    import jax

    col = _COLLECT
    if col is None:
        return True
    rec, case = col["rec"], col["case"]
    leaves = list(result.values()) + [v if v is not None else pre_v]
    if any(isinstance(l, jax.core.Tracer) for l in leaves):
        rec.skipped("gate_contract", "traced call (abstract values)")
        return True
    col["evals"] += 1
    cls = type(obj).__name__
    if not result:
        rec.held("gate_contract")  # Leak / TanhRate: nothing to update, nothing returned
        return True
    for key, new in result.items():
        new = np.atleast_1d(np.asarray(new, dtype=np.float64))
        x = np.broadcast_to(np.asarray(states[key], dtype=np.float64), new.shape)
        vv = np.broadcast_to(np.asarray(v if v is not None else pre_v, dtype=np.float64), new.shape)
        inf, tau = _own_rates(obj, key, v, pre_v, params)
        inf = np.broadcast_to(inf, new.shape)
        tau = np.broadcast_to(tau, new.shape)
        with np.errstate(all="ignore"):
            e = np.exp(-dt / tau)
            want = inf + (x - inf) * e
        fin = np.isfinite(new)
        rng_ok = (new >= 0.0) & (new <= 1.0)
        rates_fin = np.isfinite(inf) & np.isfinite(tau) & np.isfinite(want)
        closed = np.abs(new - want) <= 1e-12 + 1e-10 * np.abs(want)
        toward = (new >= np.minimum(x, inf) - 1e-15) & (new <= np.maximum(x, inf) + 1e-15)
        ok = fin & rng_ok & rates_fin & closed & toward
        nbad = int((~ok).sum())
        rec.held("gate_contract", int(ok.sum()))
        if nbad:
            i = int(np.argmax(~ok))
            clause = ("finite" if not fin[i] else "range" if not rng_ok[i] else "own_rates_nan" if not rates_fin[i]
                      else "closed_form" if not closed[i] else "toward")
            rec._c("gate_contract", "violated", nbad - 1)
            rec.violated("gate_contract", mech=cls, gate=key, clause=clause, v=float(vv[i]), v_hex=float(vv[i]).hex(),
                         dt=float(dt), x=float(x[i]), new=float(new[i]), want=float(want[i]), x_inf=float(inf[i]),
                         tau=float(tau[i]), n_bad=nbad, vclass=case.get("vclass"),
                         dist_to_singular=float(min(abs(vv[i] - s) for s in col["sing"])))
        dec = int(math.floor(math.log10(dt)))
        rec.sig(f"{cls}|{key[len(obj._name) + 1:]}|{case.get('vclass')}|dt1e{dec}", nontrivial=True)
    return True


def post_channel(self, states, dt, v, params, result):
    return _judge(self, states, dt, v, None, params, result)


def post_synapse(self, states, delta_t, pre_voltage, post_voltage, params, result):
    return _judge(self, states, delta_t, None, pre_voltage, params, result)


class PostBroken(Exception):
    pass


def worker_init():
    """Attach the contracts to the real classes (once per worker)."""
    global _INSTALLED
    if _INSTALLED:
        return
    import icontract
    import jaxley.channels as ch
    import jaxley.synapses as sy

    for name in CHANNELS:
        cls = getattr(ch, name)
        cls.update_states = icontract.ensure(post_channel, error=PostBroken)(cls.update_states)
    for name in SYNAPSES:
        cls = getattr(sy, name)
        cls.update_states = icontract.ensure(post_synapse, error=PostBroken)(cls.update_states)
    _INSTALLED = True


def run_case(case, rec):
    global _COLLECT
    import jax.numpy as jnp
    import jaxley.channels as ch
    import jaxley.synapses as sy
    from jxmon.core import Refused

    worker_init()
    if case["mech"] == "TRAJ":
        return _traj(case, rec)
    rng = trees.rng_for(case["k"], PID, 77)
    mech = case["mech"]
    n = NVEC
    vt = float(rng.uniform(-70, -45))
    v = make_voltages(rng, mech, case["vclass"], vt, n)
    is_syn = mech in SYNAPSES
    obj = (getattr(sy, mech) if is_syn else getattr(ch, mech))()
    if case.get("rename"):
        obj.change_name("x" + mech[:2])
    p = obj._name
    table = obj.synapse_params if is_syn else obj.channel_params
    stable = obj.synapse_states if is_syn else obj.channel_states
    params = {}
    for key, default in table.items():
        if key == "vt":
            val = np.full(n, vt)
        elif key.endswith("_taumax"):
            val = trees.logu(rng, 100, 1e4, n)
        elif key.endswith("_vx"):
            val = rng.uniform(-5, 10, n)
        elif key.endswith("_k_minus"):
            val = trees.logu(rng, 1e-3, 1.0, n)
        else:
            val = np.full(n, float(default))
        if case.get("scalar_params") and key != "vt":
            val = np.full(n, float(val[0]))
        params[key] = jnp.asarray(val)
    states = {key: jnp.asarray(make_states(rng, n)) for key in stable}
    _COLLECT = {"rec": rec, "case": case, "evals": 0, "sing": singular_points(mech, vt)}
    try:
        try:
            if is_syn:
                rec.call("gate_contract", obj.update_states, states, case["dt"], jnp.asarray(v),
                         jnp.asarray(rng.uniform(-100, 50, n)), params, where=mech)
                # scalar call as vmapped code would see it
                rec.call("gate_contract", obj.update_states, {k: s[0] for k, s in states.items()}, case["dt"],
                         jnp.asarray(v[0]), jnp.asarray(-60.0), {k: q[0] for k, q in params.items()}, where=mech)
            else:
                rec.call("gate_contract", obj.update_states, states, case["dt"], jnp.asarray(v), params, where=mech)
                rec.call("gate_contract", obj.update_states, {k: s[1] for k, s in states.items()}, case["dt"],
                         jnp.asarray(v[1]), {k: q[1] for k, q in params.items()}, where=mech)
        except Refused as r:
            # "every state update returns a finite value": an exception is not a value
            rec.violated("gate_contract", mech=mech, clause="raised", error=repr(r.exc)[:200], vclass=case["vclass"],
                         dist_to_singular=1e9)
        if _COLLECT["evals"] == 0:
            rec.skipped("gate_contract", "contract never evaluated")
    finally:
        _COLLECT = None


def _traj(case, rec):
    """All channels in one compartment, voltage clamped along a ramp that hits every singular voltage exactly."""
    import jax.numpy as jnp
    import jaxley as jx
    import jaxley.channels as ch
    from jxmon.core import Refused

    comp = jx.Compartment()
    for name in ("HH", "Na", "K", "Km", "CaL", "CaT", "Leak"):
        comp.insert(getattr(ch, name)())
    vt = -60.0
    pts = [-100.0, -55.0, -55.0, -47.0, -47.0, -45.0, -45.0, -40.0, -40.0, -27.0, -27.0, -20.0, -20.0, 40.0, -81.0, -35.0]
    ramp = np.concatenate([np.linspace(a, b, 6, endpoint=False) for a, b in zip(pts[:-1], pts[1:])] + [[pts[-1]]])
    comp.clamp("v", jnp.asarray(ramp), verbose=False)
    names = [k for c in comp.channels for k in c.channel_states]
    for s in names:
        comp.record(s, verbose=False)
    solver = case.get("solver", "bwd_euler")
    backend = case.get("backend", "jaxley.stone")
    try:
        out = np.asarray(rec.call("gate_traj", jx.integrate, comp, delta_t=case["dt"], solver=solver, voltage_solver=backend,
                                  where=f"integrate under v-clamp {solver}/{backend}"))
    except Refused:
        return
    dt = case["dt"]
    v_prev = np.concatenate([[float(comp.nodes["v"].iloc[0])], ramp[:-1]])  # voltage seen by the gate update of step k
    for row, s in zip(out, names):
        ok = np.all(np.isfinite(row)) and row.min() >= 0 and row.max() <= 1
        i = int(np.argmax(~np.isfinite(row))) if not np.all(np.isfinite(row)) else 0
        rec.check("gate_traj", ok, state=s, dt=dt, first_bad_step=i, solver=solver,
                  v_at_bad=float(ramp[max(i - 1, 0)]), mech=s.split("_")[0], clause="trajectory", dist_to_singular=0.0)
        if not ok:
            continue
        # every step advances the gate by exactly dt along the closed-form solution at the voltage before the step,
        # whatever scheme is used for the voltage equation
        obj = next(c for c in comp.channels if s in c.channel_states)
        params = {k: jnp.asarray(float(comp.nodes[k].iloc[0])) for k in obj.channel_params}
        inf, tau = _own_rates(obj, s, jnp.asarray(v_prev), None, params)
        with np.errstate(all="ignore"):
            want = inf + (row[:-1] - inf) * np.exp(-dt / tau)
        bad = ~(np.abs(row[1:] - want) <= 1e-10 + 1e-9 * np.abs(want))
        j = int(np.argmax(bad)) if bad.any() else 0
        rec.check("gate_traj", not bad.any(), state=s, dt=dt, solver=solver, backend=backend, step=j + 1, v_before_step=float(v_prev[j]),
                  got=float(row[1:][j]), want=float(want[j]), mech=type(obj).__name__, clause="trajectory_closed_form",
                  dist_to_singular=1e9)
    rec.sig(f"traj|dt{case['dt']}|{solver}|{backend}", nontrivial=True)


def classify(case, v):
    d = v.get("detail", {})
    # F4: NaN / garbage rates at (and within rounding distance of) the removable singularities
    if d.get("mech") in ("HH", "Na", "K", "CaL") and d.get("dist_to_singular", 1e9) <= 1e-9:
        return "F4"
    if d.get("clause") == "trajectory":
        return "F4"
    return None
