"""C13 - changing the number of compartments preserves the branch and its surroundings.

Events: .nodes, .groups, ncomp_per_branch, comb_parents and simulations after sequences of
branch(i).set_ncomp(n).  Oracles: invariants (branch length, uniform properties, channels, other
branches, connectivity, branch membership of groups), differential against a module built directly
with the final compartment counts (tables and simulation with all three backends), and for SWC cells
the radius profile of R5 at the new compartment centres.
"""
import os

import numpy as np

from jxmon.gen import swc as swcgen, trees

PID = 13
CH = ["HH", "K", "Leak", "Na"]
RULE = ("hand-built cells (random trees of 2-6 branches, per-branch radius/length/r_a/c_m/voltage, channels inserted per branch with "
        "per-branch parameters, 1-3 groups of whole branches) and generated SWC cells; 1-4 set_ncomp calls on different branches with "
        "n in 1..8 (results routinely leave a parent shorter than its sibling level). distinct = (hand/swc, tree shape, final ncomp "
        "vector, #calls); non-trivial = at least one branch changed its count")
ASSUMPTIONS = ["a cell built directly with the final compartment counts and the same per-branch properties is the specification",
               "R5 radius interpolation for SWC cells (1e-6 relative, see C16)", "group membership is judged per branch (whole-branch groups)"]
MECHANISMS = ["jaxley.modules.base:Module.set_ncomp", "jaxley.utils.cell_utils:build_radiuses_from_xyzr", "jaxley.modules.cell:Cell._init_morph_jaxley_spsolve",
              "jaxley.modules.cell:Cell._init_morph_jax_spsolve", "jaxley.modules.base:Module.add_to_group"]
MECHANISMS_REQUIRED = MECHANISMS[:4]
REQUIRED = {"quick": {"branch_invariants": 40, "direct_equiv": 60, "groups_kept": 30, "swc_profile": 10},
            "thorough": {"branch_invariants": 376, "direct_equiv": 1020, "groups_kept": 307, "swc_profile": 119}}
WALL_BUDGET = {"quick": 1500, "thorough": 4 * 3600}


def cases(seed, tier):
    n = 40 if tier == "quick" else 600
    out = []
    for k in range(n):
        rng = trees.rng_for(seed, PID, k)
        if k % 4 == 3:
            spec = swcgen.random_swc(rng, max_sections=6, single_point_soma=bool(k % 8 == 3), max_pts=5, zero_len_prob=0.0)
            out.append({"type": "swc", "swc": spec, "k": k, "ncomp0": int(rng.integers(1, 5)), "calls_seed": int(rng.integers(0, 2**31)),
                        "min_radius": [None, 0.5][k % 2]})
            continue
        nb = int(rng.integers(2, 7))
        par, _ = trees.shuffle_topological(rng, trees.random_parents(rng, nb))
        nc0 = [int(x) for x in rng.integers(1, 5, nb)]
        br = []
        cellwide = [c for c in CH if rng.random() < 0.5] or ["HH"]
        for b in range(nb):
            # set_ncomp refuses a branch whose channel columns hold NaN (channel present elsewhere in the cell only) - most cases
            # therefore use cell-wide channels with per-branch parameters; every 5th case keeps per-branch channel sets
            chans = list(cellwide) if k % 5 else [c for c in CH if rng.random() < 0.45]
            br.append({"radius": float(rng.uniform(0.5, 3)), "length": float(rng.uniform(20, 120)), "ra": float(rng.uniform(50, 500)),
                       "cm": float(rng.uniform(0.7, 2)), "v": float(rng.uniform(-75, -55)), "ch": chans, "gscale": float(rng.uniform(0.5, 1.5)),
                       "gate": float(rng.uniform(0.05, 0.6))})
        groups = {}
        for g in ["dend", "axon", "misc"][: int(rng.integers(1, 4))]:
            groups[g] = sorted(set(int(x) for x in rng.choice(nb, int(rng.integers(1, nb + 1)), replace=False)))
        ncalls = int(rng.integers(1, 5))
        calls = [[int(rng.integers(0, nb)), int(rng.integers(1, 9))] for _ in range(ncalls)]
        out.append({"type": "hand", "parents": [int(p) for p in par], "ncomp0": nc0, "branches": br, "groups": groups, "calls": calls, "k": k})
    return out


def build_hand(case, ncomp):
    import jaxley as jx
    import jaxley.channels as chm
    comp = jx.Compartment()
    cell = jx.Cell([jx.Branch([comp] * int(n)) for n in ncomp], parents=case["parents"])
    for b, spec in enumerate(case["branches"]):
        v = cell.branch(b)
        v.set("radius", spec["radius"]); v.set("length", spec["length"] / ncomp[b]); v.set("axial_resistivity", spec["ra"])
        v.set("capacitance", spec["cm"]); v.set("v", spec["v"])
    for name in CH:
        bs = [b for b, spec in enumerate(case["branches"]) if name in spec["ch"]]
        if not bs:
            continue
        obj = getattr(chm, name)()
        cell.branch(bs).insert(obj)
        for b in bs:
            spec = case["branches"][b]
            for key, val in obj.channel_params.items():
                if "_g" in key:
                    cell.branch(b).set(key, float(val) * spec["gscale"])
            for key in obj.channel_states:
                cell.branch(b).set(key, spec["gate"])
    for g, bs in case["groups"].items():
        cell.branch(bs).add_to_group(g)
    return cell


def simulate(cell, backend, T=8):
    import jax.numpy as jnp
    import jaxley as jx
    cell.delete_stimuli(); cell.delete_recordings()
    cell.branch(0).loc(0.0).stimulate(jnp.full((1, T), 0.2), verbose=False)
    # one recording per branch end (independent of the compartment counts)
    for b in range(len(cell.comb_parents)):
        cell.branch(b).loc(0.0).record("v", verbose=False)
        cell.branch(b).loc(1.0).record("v", verbose=False)
    out = np.asarray(jx.integrate(cell, delta_t=0.025, voltage_solver=backend))
    cell.delete_stimuli(); cell.delete_recordings()
    return out


def table_view(cell):
    nd = cell.nodes.drop(columns=[c for c in cell.nodes.columns if c in ("controlled_by_param", "x", "y", "z")], errors="ignore")
    return nd.reset_index(drop=True)


def group_branches(cell):
    nd = cell.nodes
    return {g: sorted(set(nd.loc[[int(r) for r in rows if int(r) in nd.index], "global_branch_index"].tolist())) if len(rows) else []
            for g, rows in cell.groups.items()}


def run_case(case, rec):
    import pandas as pd
    from jxmon.core import Refused
    if case["type"] == "swc":
        return _swc(case, rec)
    nb = len(case["parents"])
    cell = rec.call("build", build_hand, case, case["ncomp0"])
    nc = list(case["ncomp0"])
    if case["k"] % 2 == 0:
        # history: the module has been simulated before it is re-discretised (nothing derived during a run may survive set_ncomp)
        try:
            import jax.numpy as jnp
            import jaxley as jx
            cell.select(nodes=[0]).record("v", verbose=False)
            cell.select(nodes=[0]).stimulate(jnp.full((3,), 0.01), verbose=False)
            for be in ("jaxley.stone", "jax.sparse"):
                rec.call("direct_equiv", jx.integrate, cell, delta_t=0.025, voltage_solver=be, where="simulation before set_ncomp")
            cell.delete_recordings(); cell.delete_stimuli()
        except Refused:
            cell = build_hand(case, case["ncomp0"])
    gb0 = group_branches(cell)
    tag = dict(parents=case["parents"], ncomp0=case["ncomp0"], calls=case["calls"], k=case["k"])
    changed = False
    for b, n in case["calls"]:
        before = cell.nodes.copy(deep=True)
        try:
            rec.call("branch_invariants", cell.branch(b).set_ncomp, n, where=f"set_ncomp({n})")
        except Refused:
            continue
        changed = changed or n != nc[b]
        nc[b] = n
        nd = cell.nodes
        spec = case["branches"][b]
        rows = nd[nd["global_branch_index"] == b]
        ok = (len(rows) == n and abs(float(rows["length"].sum()) - spec["length"]) <= 1e-9 * spec["length"]
              and np.allclose(rows["radius"], spec["radius"]) and np.allclose(rows["axial_resistivity"], spec["ra"])
              and np.allclose(rows["capacitance"], spec["cm"]) and np.allclose(rows["v"], spec["v"]))
        for name in CH:
            if name in nd.columns:
                ok = ok and bool((rows[name] == (name in spec["ch"])).all())
        rec.check("branch_invariants", ok, what="the changed branch lost length / uniform properties / channels", branch=b, n=n,
                  length_sum=float(rows["length"].sum()), want_length=spec["length"], **tag)
        # other branches: rows unchanged up to re-indexing
        oth_ok = True
        for ob in range(nb):
            if ob == b:
                continue
            a = before[before["global_branch_index"] == ob].drop(columns=["global_comp_index", "local_comp_index", "controlled_by_param"], errors="ignore").reset_index(drop=True)
            c = nd[nd["global_branch_index"] == ob].drop(columns=["global_comp_index", "local_comp_index", "controlled_by_param"], errors="ignore").reset_index(drop=True)
            oth_ok = oth_ok and set(a.columns) == set(c.columns) and len(a) == len(c)
            if oth_ok:
                for col in a.columns:  # values, not dtypes: re-assembling the table may upcast a column
                    x, y = a[col].to_numpy(), c[col].to_numpy()
                    try:
                        oth_ok = oth_ok and np.array_equal(x.astype(float), y.astype(float), equal_nan=True)
                    except (TypeError, ValueError):
                        oth_ok = oth_ok and list(x) == list(y)
        idx_ok = (list(nd["global_comp_index"]) == list(range(len(nd))) and list(nd.index) == list(range(len(nd)))
                  and list(cell.ncomp_per_branch) == nc and [int(p) for p in cell.comb_parents] == case["parents"]
                  and list(nd["global_branch_index"]) == [bb for bb in range(nb) for _ in range(nc[bb])])
        rec.check("branch_invariants", oth_ok and idx_ok, what="other branches / indices / connectivity changed", branch=b, n=n,
                  ncomp_per_branch=[int(x) for x in cell.ncomp_per_branch], want=nc, **tag)
        gb = group_branches(cell)
        rec.check("groups_kept", gb == gb0 and all(len(set(int(r) for r in rows_)) == sum(nc[bb] for bb in gb0[g]) for g, rows_ in cell.groups.items()),
                  what="branch membership of named groups changed", after=gb, before=gb0, branch=b, n=n,
                  group_sizes={g: len(v) for g, v in cell.groups.items()}, want_sizes={g: sum(nc[bb] for bb in gb0[g]) for g in gb0}, **tag)
    # ---- differential against direct construction
    direct = build_hand(case, nc)
    ta, tb = table_view(cell), table_view(direct)
    cols = [c for c in tb.columns if c in ta.columns]
    same = set(ta.columns) == set(tb.columns) and len(ta) == len(tb)
    diffcols = []
    if same:
        for c in cols:
            x, y = ta[c].to_numpy(), tb[c].to_numpy()
            try:
                eq = np.allclose(x.astype(float), y.astype(float), rtol=1e-12, atol=0, equal_nan=True)
            except (TypeError, ValueError):
                eq = list(x) == list(y)
            if not eq:
                diffcols.append(c)
    rec.check("direct_equiv", same and not diffcols, what="tables differ from a cell built directly with the final compartment counts",
              columns=diffcols[:10], final_ncomp=nc, **tag)
    # bookkeeping that decides parameter sharing must be that of a freshly built module as well
    try:
        import copy
        c1, c2 = copy.deepcopy(cell), copy.deepcopy(direct)
        c1.make_trainable("radius", verbose=False); c2.make_trainable("radius", verbose=False)
        c1.branch(0).make_trainable("length", verbose=False); c2.branch(0).make_trainable("length", verbose=False)
        shapes = lambda c: [(list(p)[0], tuple(np.asarray(list(p.values())[0]).shape), tuple(np.asarray(i).shape)) for p, i in zip(c.trainable_params, c.indices_set_by_trainables)]
        rec.check("direct_equiv", shapes(c1) == shapes(c2), what="make_trainable on the whole cell shares parameters differently than on a directly built cell",
                  got=str(shapes(c1)), want=str(shapes(c2)), controlled_by_param=cell.nodes["controlled_by_param"].tolist()[:20], final_ncomp=nc, **tag)
    except (AssertionError, KeyError, ValueError) as e:
        rec.refused("direct_equiv", e, where="make_trainable after set_ncomp")
    for backend in ("jaxley.stone", "jaxley.thomas", "jax.sparse"):
        try:
            o1 = rec.call("direct_equiv", simulate, cell, backend, where=f"after set_ncomp {backend}")
            o2 = rec.call("direct_equiv", simulate, direct, backend, where=f"direct {backend}")
        except Refused:
            continue
        dev = float(np.max(np.abs(o1 - o2) / (1 + np.abs(o2)))) if o1.shape == o2.shape else float("inf")
        rec.check("direct_equiv", dev <= 1e-9 and np.all(np.isfinite(o1)), what="simulation differs from the directly built cell", backend=backend,
                  max_rel_dev=dev, final_ncomp=nc, f1_pre=trees.f1_precondition(case["parents"], nc), **tag)
    rec.sig(f"hand|{trees.canonical_tree(case['parents'])}|{nc}|{len(case['calls'])}", nontrivial=changed)


def _swc(case, rec):
    import warnings
    import jaxley as jx
    from jxmon.core import Refused
    from jxmon.env import ROOT
    from jxmon.oracles import swcref as R5
    wd = os.path.join(ROOT, "work", "swc")
    os.makedirs(wd, exist_ok=True)
    path = os.path.join(wd, f"c13_{os.getpid()}_{case['k']}.swc")
    swcgen.write(case["swc"], path)
    try:
        rows = R5.parse(path)
        secs = R5.sections(rows)
        sps = R5.is_single_point_soma(rows)
        with warnings.catch_warnings():
            warnings.simplefilter("ignore")
            cell = rec.call("swc_profile", jx.read_swc, path, ncomp=case["ncomp0"], min_radius=case["min_radius"], where="read_swc")
    finally:
        if os.path.exists(path):
            os.remove(path)
    nb = len(cell.comb_parents)
    if nb < 2 or nb != len(secs):
        rec.skipped("swc_profile", "single-branch cell or padded root")
        return
    keys = {R5.key_of(rows, s): i for i, s in enumerate(secs)}
    b2s = {b: keys.get(tuple(tuple(np.round(np.asarray(p, dtype=float), 5)) for p in cell.xyzr[b])) for b in range(nb)}
    if any(v is None for v in b2s.values()):
        rec.skipped("swc_profile", "branches not matched (C16's business)")
        return
    rng = np.random.default_rng(case["calls_seed"])
    nc = [case["ncomp0"]] * nb
    gb0 = group_branches(cell)
    par0 = [int(p) for p in cell.comb_parents]
    tag = dict(k=case["k"], single_point_soma=bool(sps), ncomp0=case["ncomp0"], min_radius=case["min_radius"])
    calls = [[int(rng.integers(0, nb)), int(rng.integers(1, 9))] for _ in range(int(rng.integers(1, 4)))]
    for b, n in calls:
        try:
            rec.call("swc_profile", cell.branch(b).set_ncomp, n, min_radius=case["min_radius"], where=f"set_ncomp({n}) on swc cell")
        except Refused:
            continue
        nc[b] = n
        nd = cell.nodes
        bad = []
        for bb in range(nb):
            r = nd[nd["global_branch_index"] == bb]
            want_r = R5.radii(rows, secs, b2s[bb], nc[bb], sps, case["min_radius"])
            want_L = R5.length(rows, secs[b2s[bb]], sps)
            if len(r) != nc[bb] or np.max(np.abs(r["radius"].to_numpy(dtype=float) - want_r) / (1 + want_r)) > 1e-6 or abs(float(r["length"].sum()) - want_L) > 1e-9 * (1 + want_L):
                bad.append((bb, r["radius"].tolist()[:6], want_r.tolist()[:6], float(r["length"].sum()), want_L))
        rec.check("swc_profile", not bad, what="radius profile / length after set_ncomp differs from the traced morphology", branch=b, n=n,
                  first=str(bad[:2]), calls=calls, **tag)
        gb = group_branches(cell)
        rec.check("groups_kept", gb == gb0 and [int(p) for p in cell.comb_parents] == par0, what="type groups / connectivity changed by set_ncomp",
                  after=gb, before=gb0, branch=b, n=n, calls=calls,
                  group_sizes={g: len(v) for g, v in cell.groups.items()}, want_sizes={g: sum(nc[bb] for bb in gb0[g]) for g in gb0}, **tag)
    # simulate with all backends: must agree with each other (the direct construction for SWC is read_swc itself with equal ncomp only)
    from jaxley.channels import HH
    cell.insert(HH())
    outs = {}
    for backend in ("jaxley.stone", "jaxley.thomas", "jax.sparse"):
        try:
            outs[backend] = rec.call("direct_equiv", simulate, cell, backend, where=f"swc after set_ncomp {backend}")
        except Refused:
            pass
    if "jax.sparse" in outs:
        for be, o in outs.items():
            if be != "jax.sparse":
                dev = float(np.max(np.abs(o - outs["jax.sparse"]) / (1 + np.abs(o))))
                rec.check("direct_equiv", dev <= 1e-8 and np.all(np.isfinite(o)), what="backends disagree after set_ncomp on an SWC cell", backend=be,
                          max_rel_dev=dev, final_ncomp=nc, calls=calls, **tag)
    rec.sig(f"swc|sps{int(sps)}|n{nb}|{nc}", nontrivial=nc != [case["ncomp0"]] * nb)


def classify(case, v):
    d = v.get("detail", {})
    # F9: .groups stores row labels; set_ncomp re-indexes the rows but leaves the labels, so groups point at other compartments
    if v["monitor"] == "groups_kept" and d.get("group_sizes") is not None:
        return "F9"
    return None
