"""C06 - results do not depend on how the simulation is executed; integrate() is pure.

Events: outputs of one simulation under plain eager execution (jax.disable_jit), the default call,
jax.jit, jax.vmap over parameter and stimulus batches vs a python loop, checkpoint_lengths of depth
1-3 with product = and > steps; snapshots of the module and of caller-owned inputs before/after.
Oracles: differential (1e-8 relative), bit-identity of repeated calls, equality of snapshots.
"""
import numpy as np

from jxmon.gen import models, trees

PID = 6
RULE = ("active models (HH + random channels, synapses, <=10 compartments), 4-12 steps, static stimuli (numpy or jax arrays) "
        "and/or data stimuli, optional clamp, optional trainables and data_set state reused across calls, t_max shorter/longer; "
        "modes: default, repeat, jit, eager (<=4 steps), vmap over stimuli (batch 1-4), vmap over parameters, checkpoint layouts "
        "of depth 1-3 (= and > steps). distinct = (kind, backend, modes exercised, input classes)")
ASSUMPTIONS = ["jaxnodes/jaxedges are caches and not part of the purity snapshot",
               "modes may differ by floating-point reassociation only: 1e-8 relative"]
MECHANISMS = ["jaxley.integrate:integrate", "jaxley.integrate:add_stimuli", "jaxley.integrate:add_clamps",
              "jaxley.utils.jax_utils:nested_checkpoint_scan", "jaxley.utils.jax_utils:_inner_nested_scan",
              "jaxley.modules.base:Module.data_stimulate", "jaxley.modules.base:Module.data_set", "jaxley.modules.base:Module.data_clamp"]
MECHANISMS_REQUIRED = ["jaxley.integrate:integrate", "jaxley.utils.jax_utils:nested_checkpoint_scan", "jaxley.modules.base:Module.data_stimulate"]
REQUIRED = {"quick": {"modes": 120, "purity": 120, "repeat": 30},
            "thorough": {"modes": 1188, "purity": 1155, "repeat": 320}}
WALL_BUDGET = {"quick": 1500, "thorough": 4 * 3600}
TOL = 1e-8


def cases(seed, tier):
    n = 28 if tier == "quick" else 400
    out = []
    for k in range(n):
        rng = trees.rng_for(seed, PID, k)
        spec = models.random_active(rng, kind=["cell", "network", "branch", "network", "cell"][k % 5], max_comps=10, T=(4, 12),
                                    homogeneous_net=(k % 2 == 1))
        be = models.backends_for(spec)
        out.append({"spec": spec, "backend": be[k % len(be)], "solver": ["bwd_euler", "crank_nicolson"][k % 2],
                    "np_stim": bool(k % 3 == 0), "eager": bool(k % 4 == 0), "static_and_data": bool(k % 3 == 1),
                    "clamp": bool(k % 5 == 2), "batch": int(rng.integers(1, 5)), "tmax": [None, "short", "long"][k % 3],
                    "pstate": bool(k % 2 == 0), "bseed": int(rng.integers(0, 2**31)),
                    "no_input": bool(k % 7 == 5)})  # no stimulus, no clamp: the duration comes from t_max alone
    return out


def snapshot(m):
    import copy
    return {
        "nodes": m.nodes.copy(deep=True), "edges": m.edges.copy(deep=True), "recordings": m.recordings.copy(deep=True),
        "externals": {k: np.array(v) for k, v in m.externals.items()},
        "external_inds": {k: np.array(v) for k, v in m.external_inds.items()},
        "groups": {k: np.array(v) for k, v in m.groups.items()},
        "trainable_params": [{k: np.array(v) for k, v in p.items()} for p in m.trainable_params],
        "indices_set_by_trainables": [np.array(i) for i in m.indices_set_by_trainables],
        "channels": [c._name for c in m.channels], "synapses": [s._name for s in m.synapses],
        "externals_types": {k: type(v).__module__.split(".")[0] for k, v in m.externals.items()},
    }


def snap_diff(a, b):
    bad = []
    for k in ("nodes", "edges", "recordings"):
        if not (list(a[k].columns) == list(b[k].columns) and a[k].equals(b[k])):
            bad.append(k)
    for k in ("externals", "external_inds", "groups"):
        if set(a[k]) != set(b[k]) or any(a[k][q].shape != b[k][q].shape or not np.array_equal(a[k][q], b[k][q], equal_nan=True) for q in a[k]):
            bad.append(k)
    for k in ("trainable_params",):
        if len(a[k]) != len(b[k]) or any(set(x) != set(y) or any(not np.array_equal(x[q], y[q]) for q in x) for x, y in zip(a[k], b[k])):
            bad.append(k)
    if len(a["indices_set_by_trainables"]) != len(b["indices_set_by_trainables"]) or any(
            not np.array_equal(x, y) for x, y in zip(a["indices_set_by_trainables"], b["indices_set_by_trainables"])):
        bad.append("indices_set_by_trainables")
    for k in ("channels", "synapses", "externals_types"):
        if a[k] != b[k]:
            bad.append(k)
    return bad


def run_case(case, rec):
    import jax
    import jax.numpy as jnp
    import jaxley as jx
    from jxmon.core import Refused

    spec = case["spec"]
    N, dt = spec["T"], spec["dt"]
    m, recs = rec.call("build", models.build_active, spec, stimulate=False, record="all")
    kw = dict(delta_t=dt, solver=case["solver"], voltage_solver=case["backend"])
    tag = dict(kind=spec["struct"]["kind"], backend=case["backend"], solver=case["solver"], N=N)
    stim = spec["stim"]
    n_static = len(stim) if not case["static_and_data"] else max(1, len(stim) // 2)
    static = stim[:n_static] if (case["static_and_data"] or True) else []
    data = stim[n_static:] if case["static_and_data"] else []
    if not case["static_and_data"] and case["bseed"] % 2:
        static, data = [], stim  # everything data-fed
    if case.get("no_input"):
        static, data = [], []
        case = dict(case, clamp=False)
    for s in static:
        w = np.asarray(s["w"])
        m.select(nodes=np.asarray(s["rows"])).stimulate(w if case["np_stim"] else jnp.asarray(w), verbose=False)
    if case["clamp"]:
        rows = spec["ins"][0]["rows"][:1]
        rngc = np.random.default_rng(case["bseed"])
        m.select(nodes=np.asarray(rows)).clamp("HH_m", jnp.asarray(rngc.uniform(0.1, 0.9, (1, N))), verbose=False)
    params, pstate = [], None
    if case["pstate"]:
        rows = spec["ins"][0]["rows"]
        m.select(nodes=np.asarray(rows)).make_trainable("HH_gNa", verbose=False)
        params = [{k2: v2 * 1.1 for k2, v2 in p.items()} for p in m.get_parameters()]
        pstate = m.select(nodes=np.asarray(rows[:1])).data_set("radius", 1.234, None)
        if len(m.edges) > 1:
            col = [c for c in m.edges.columns if c.endswith(("_gS", "_gC"))][0]
            es = m.edges.index[~m.edges[col].isna()].to_numpy()
            pstate = m.select(edges=es[-1:]).data_set(col, 2e-3, pstate)

    syn_view_rows = None
    if len(m.edges):  # a view that contains a synapse (both ends in view), as in net.cell([i, j]).data_stimulate(...)
        e0 = m.edges.iloc[0]
        syn_view_rows = sorted({int(e0["pre_global_comp_index"]), int(e0["post_global_comp_index"])})

    def ds(scale=1.0):
        d = None
        for s in data:
            d = m.select(nodes=np.asarray(s["rows"])).data_stimulate(jnp.asarray(np.asarray(s["w"])) * scale, d)
        if syn_view_rows is not None and (data or not static) and not case.get("no_input"):
            Tn = len(stim[0]["w"][0])
            d = m.select(nodes=np.asarray(syn_view_rows)).data_stimulate(jnp.full((len(syn_view_rows), Tn), 0.01) * scale, d)
        return d

    tm = {}
    if case["tmax"] == "short":
        tm = {"t_max": dt * (N - 2.5)}
    elif case["tmax"] == "long":
        tm = {"t_max": dt * (N + 2.5)}
    if case["clamp"] and case["tmax"] == "long":
        tm = {}  # a clamp shorter than the run is refused by design
    if not static and not data and not case["clamp"]:
        tm = {"t_max": dt * N}

    def call(**extra):
        return jx.integrate(m, params=params, param_state=pstate, data_stimuli=ds(), **tm, **kw, **extra)

    pstate_before = None if pstate is None else [{"key": q["key"], "indices": np.array(q["indices"]), "val": np.array(q["val"])} for q in pstate]

    def check_pure(before, where):
        after = snapshot(m)
        bad = snap_diff(before, after)
        if pstate is not None:
            for q0, q1 in zip(pstate_before, pstate):
                if q0["key"] != q1["key"] or not np.array_equal(q0["indices"], np.asarray(q1["indices"])) or not np.array_equal(q0["val"], np.asarray(q1["val"])):
                    bad.append(f"caller param_state[{q0['key']}]")
        rec.check("purity", not bad, what="integrate changed module/caller state", changed=bad, mode=where, **tag)
        return after

    snap0 = snapshot(m)
    try:
        A = np.asarray(rec.call("modes", call, where=f"default {case['solver']}/{case['backend']}"))
    except Refused:
        return
    if not np.all(np.isfinite(A)):
        rec.skipped("modes", "reference not finite")
        return
    scale = 1 + np.abs(A)
    snap = check_pure(snap0, "default")
    modes = ["default"]

    def cmp(name, B, monitor="modes"):
        B = np.asarray(B)
        ok = B.shape == A.shape and np.max(np.abs(B - A) / scale) <= TOL
        j = np.unravel_index(np.argmax(np.abs(B - A) / scale), A.shape) if B.shape == A.shape else (0, 0)
        rec.check(monitor, ok, mode=name, state=recs[j[0]][0], index=recs[j[0]][1], col=int(j[1]), got=float(B[j]) if B.shape == A.shape else list(B.shape),
                  want=float(A[j]), **tag)
        modes.append(name)

    # repeat: bit-identical
    for r in range(2):
        try:
            B = np.asarray(rec.call("repeat", call, where="repeat"))
        except Refused:
            break
        rec.check("repeat", B.shape == A.shape and np.array_equal(B, A), what="repeated call is not bit-identical", n=r + 2,
                  max_dev=float(np.max(np.abs(B - A))) if B.shape == A.shape else None, **tag)
        snap = check_pure(snap, f"repeat{r + 2}")
    # jit
    try:
        jf = jax.jit(lambda sc: jx.integrate(m, params=params, param_state=pstate, data_stimuli=ds(sc), **tm, **kw))
        cmp("jit", rec.call("modes", jf, 1.0, where="jit"))
        cmp("jit_second_call", rec.call("modes", jf, 1.0, where="jit"))
        snap = check_pure(snap, "jit")
    except Refused:
        pass
    # two different transformations in a row, each tracing a function that creates views (the documented pattern
    # jit(simulate) followed by jit(grad(loss))): the first trace must not leave anything in the module that breaks the second
    try:
        f2 = lambda sc: jx.integrate(m, params=params, param_state=pstate, data_stimuli=ds(sc), **tm, **kw)
        rec.call("modes", jax.jit(f2), 1.0, where="retrace: second jit of a view-creating function")
        g2 = rec.call("modes", jax.jit(jax.grad(lambda sc: jnp.sum(f2(sc)[0] ** 2))), 1.0, where="retrace: jit then jit(grad)")
        rec.check("modes", bool(np.isfinite(float(g2))), mode="retrace", what="gradient after a previous jit trace is not finite", **tag)
        modes.append("retrace")
    except Refused as r:
        rec.counts["modes"]["refused"] -= 1
        rec.violated("modes", mode="retrace", what="a second transformation after jit fails: the first trace changed the module",
                     error=repr(r.exc)[:200], has_synapses=bool(len(m.edges)), **tag)
    call()  # refresh with an eager call
    # checkpointing
    nsteps = A.shape[1] - 1
    layouts = [[nsteps]] + [[a, nsteps // a] for a in range(2, nsteps) if nsteps % a == 0][:1] + [[2, nsteps // 2 + 1], [2, 2, nsteps // 4 + 1]]
    for cl in layouts:
        try:
            cmp(f"checkpoint{cl}", rec.call("modes", call, checkpoint_lengths=cl, where=f"checkpoint {cl}"))
        except Refused as r:
            # the statement promises the same recordings for ANY layout whose product covers the run: raising is not that
            rec.counts["modes"]["refused"] -= 1
            rec.violated("modes", mode=f"checkpoint{cl}", what="a checkpoint layout covering the run raised", error=repr(r.exc)[:160],
                         input_widths={k2: int(np.asarray(v2).shape[0]) for k2, v2 in m.externals.items()},
                         has_data_stimuli=bool(data), **tag)
            continue
    snap = check_pure(snap, "checkpoint")
    # eager
    if case["eager"] and nsteps <= 12 and trees.total_comps(spec["struct"]) <= 8:
        try:
            with jax.disable_jit():
                cmp("eager", rec.call("modes", call, where="disable_jit"))
            snap = check_pure(snap, "eager")
        except Refused:
            pass
    # vmap over stimulus scale and over parameters
    B = case["batch"]
    rngb = np.random.default_rng(case["bseed"])
    scales = jnp.asarray(rngb.uniform(0.5, 1.5, B))
    if data:
        try:
            f = lambda sc: jx.integrate(m, params=params, param_state=pstate, data_stimuli=ds(sc), **tm, **kw)
            V = np.asarray(rec.call("modes", jax.vmap(f), scales, where="vmap stimuli"))
            L = np.stack([np.asarray(f(sc)) for sc in scales])
            ok = V.shape == L.shape and np.max(np.abs(V - L) / (1 + np.abs(L))) <= TOL
            rec.check("modes", ok, mode="vmap_stimuli", batch=B, max_dev=float(np.max(np.abs(V - L))) if V.shape == L.shape else None, **tag)
            modes.append("vmap_stim")
        except Refused:
            pass
    if params:
        try:
            base = params[0]["HH_gNa"]
            P = jnp.stack([base * float(x) for x in rngb.uniform(0.7, 1.3, B)])
            f = lambda p: jx.integrate(m, params=[{"HH_gNa": p}], param_state=pstate, data_stimuli=ds(), **tm, **kw)
            V = np.asarray(rec.call("modes", jax.vmap(f), P, where="vmap params"))
            L = np.stack([np.asarray(f(p)) for p in P])
            ok = V.shape == L.shape and np.max(np.abs(V - L) / (1 + np.abs(L))) <= TOL
            rec.check("modes", ok, mode="vmap_params", batch=B, max_dev=float(np.max(np.abs(V - L))) if V.shape == L.shape else None, **tag)
            modes.append("vmap_params")
        except Refused:
            pass
    check_pure(snap, "vmap")
    # views created after the calls must still be constructible (a corrupted externals table shows up here)
    try:
        rec.call("purity", lambda: m.select(nodes=[0]).nodes.shape, where="view after integrate")
        rec.held("purity")
    except Refused as r:
        rec.counts["purity"]["refused"] -= 1
        rec.violated("purity", what="module unusable after integrate", error=repr(r.exc)[:200], **tag)
    rec.sig(f"{tag['kind']}|{case['backend']}|{'+'.join(sorted(set(m_.split('[')[0] for m_ in modes)))}|np{int(case['np_stim'])}|sd{int(case['static_and_data'])}|cl{int(case['clamp'])}|t{case['tmax']}")


def classify(case, v):
    return None
