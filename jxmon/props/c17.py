"""C17 - parameter transforms are bounded, monotone bijections.

Monitors: `bounds` (icontract postconditions on the real forward methods of the bounded
transforms, evaluated on every concrete call incl. those made by chains/ParamTransform),
`monotone`, `roundtrip` (both directions, judged against exact mpmath sigmoid/softplus with a
tolerance equal to the unavoidable conditioning error of the exact inverse at the rounded
value), `leafwise` (ParamTransform touches exactly its own leaf), `jit_equiv`.
"""
import math

import numpy as np

from jxmon.gen import trees

PID = 17
KINDS = ["sigmoid", "softplus", "negsoftplus", "affine", "chain", "masked", "custom", "param"]
RULE = ("per case one transform instance with random bounds (magnitudes 1e-3..1e4, widths 1e-3..1e4, both signs) and a "
        "batch of 160 inputs: log-spaced magnitudes up to 1e6 of both signs, dense in [-40,40] with emphasis on "
        "|x| in [15,40] (clip of save_exp at 20); in-range y values incl. 1e-12 from the bounds; chains/masks of depth "
        "<=3; ParamTransform on random pytrees. distinct = (transform kind, bound signs, input regime)")
ASSUMPTIONS = [
    "declared bounds = constructor arguments as documented (Sigmoid [lower,upper], Softplus [lower,inf), NegSoftplus (-inf,upper])",
    "round-trip tolerance = |exact inverse at value+-2ulp - x| + 1e-9(1+|x|): a pair is exempt only if the exact forward value rounds onto a bound",
    "the interval-analysis proof named in the quantifier belongs to another technique family and is not attempted",
]
MECHANISMS = ["jaxley.optimize.transforms:SigmoidTransform.forward", "jaxley.optimize.transforms:SigmoidTransform.inverse",
              "jaxley.optimize.transforms:SoftplusTransform.forward", "jaxley.optimize.transforms:SoftplusTransform.inverse",
              "jaxley.optimize.transforms:NegSoftplusTransform.forward", "jaxley.optimize.transforms:ChainTransform.forward",
              "jaxley.optimize.transforms:MaskedTransform.forward", "jaxley.optimize.transforms:ParamTransform.forward",
              "jaxley.optimize.transforms:ParamTransform.inverse"]
MECHANISMS_REQUIRED = ["jaxley.optimize.transforms:SigmoidTransform.forward", "jaxley.optimize.transforms:ParamTransform.forward"]
REQUIRED = {"quick": {"bounds": 3000, "monotone": 60, "roundtrip": 3000, "leafwise": 20, "jit_equiv": 30},
            "thorough": {"bounds": 109594, "monotone": 576, "roundtrip": 107466, "leafwise": 778, "jit_equiv": 1013}}
NX = 160


def _bound(rng):
    return float(rng.choice([-1.0, 1.0]) * trees.logu(rng, 1e-3, 1e4)) if rng.random() < 0.85 else 0.0


def spec_for(rng, kind):
    if kind == "sigmoid":
        lo = _bound(rng)
        return {"t": "sigmoid", "lower": lo, "upper": lo + float(trees.logu(rng, 1e-3, 1e4))}
    if kind == "softplus":
        return {"t": "softplus", "lower": _bound(rng)}
    if kind == "negsoftplus":
        return {"t": "negsoftplus", "upper": _bound(rng)}
    if kind == "affine":
        return {"t": "affine", "scale": float(rng.choice([-1.0, 1.0]) * trees.logu(rng, 1e-3, 1e3)), "shift": _bound(rng)}
    if kind == "custom":
        return {"t": "custom", "a": float(trees.logu(rng, 0.1, 10)), "b": float(rng.uniform(-5, 5))}
    if kind == "chain":
        n = int(rng.integers(1, 4))
        return {"t": "chain", "parts": [spec_for(rng, str(rng.choice(["sigmoid", "softplus", "negsoftplus", "affine", "custom"]))) for _ in range(n)]}
    if kind == "masked":
        inner = spec_for(rng, str(rng.choice(["sigmoid", "softplus", "negsoftplus", "affine", "chain"])))
        return {"t": "masked", "mask_seed": int(rng.integers(0, 2**31)), "inner": inner}
    raise ValueError(kind)


def cases(seed, tier):
    reps = 12 if tier == "quick" else 240
    out, k = [], 0
    for r in range(reps):
        for kind in KINDS:
            rng = trees.rng_for(seed, PID, k)
            k += 1
            if kind == "param":
                leaves = [spec_for(rng, str(rng.choice(KINDS[:7]))) for _ in range(int(rng.integers(2, 6)))]
                out.append({"kind": "param", "leaves": leaves, "k": k, "regime": "moderate"})
            else:
                out.append({"kind": kind, "spec": spec_for(rng, kind), "k": k,
                            "regime": ["moderate", "saturated", "wide", "near_bounds"][r % 4]})
    return out


# ----------------------------------------------------------------- exact model
def exact_forward(spec, x):
    import mpmath as mp
    t = spec["t"]
    x = mp.mpf(x)
    if t == "sigmoid":
        L, W = mp.mpf(spec["lower"]), mp.mpf(float(np.float64(spec["upper"]) - np.float64(spec["lower"])))
        return L + W / (1 + mp.exp(-x))
    if t == "softplus":
        return mp.log1p(mp.exp(x)) + mp.mpf(spec["lower"]) if x < 700 else x + mp.mpf(spec["lower"])
    if t == "negsoftplus":
        return mp.mpf(spec["upper"]) - (mp.log1p(mp.exp(-x)) if x > -700 else -x)
    if t == "affine":
        return mp.mpf(spec["scale"]) * x + mp.mpf(spec["shift"])
    if t == "custom":
        return mp.mpf(spec["a"]) * x + mp.mpf(spec["b"])
    raise ValueError(t)


def exact_inverse(spec, y):
    import mpmath as mp
    t = spec["t"]
    y = mp.mpf(y)
    if t == "sigmoid":
        L, W = mp.mpf(spec["lower"]), mp.mpf(float(np.float64(spec["upper"]) - np.float64(spec["lower"])))
        s = (y - L) / W
        if not (0 < s < 1):
            return None
        return mp.log(s) - mp.log1p(-s)
    if t == "softplus":
        z = y - mp.mpf(spec["lower"])
        if z <= 0:
            return None
        return z + mp.log(-mp.expm1(-z))
    if t == "negsoftplus":
        z = mp.mpf(spec["upper"]) - y
        if z <= 0:
            return None
        return -(z + mp.log(-mp.expm1(-z)))
    if t == "affine":
        return (y - mp.mpf(spec["shift"])) / mp.mpf(spec["scale"])
    if t == "custom":
        return (y - mp.mpf(spec["b"])) / mp.mpf(spec["a"])
    raise ValueError(t)


def declared(spec):
    t = spec["t"]
    if t == "sigmoid":
        return spec["lower"], spec["upper"]
    if t == "softplus":
        return spec["lower"], math.inf
    if t == "negsoftplus":
        return -math.inf, spec["upper"]
    return -math.inf, math.inf


def _ulp_step(y, k):
    for _ in range(abs(k)):
        y = math.nextafter(y, math.inf if k > 0 else -math.inf)
    return y


# ----------------------------------------------------------------- worker side
_COLLECT = None
_INSTALLED = False


class BoundsBroken(Exception):
    pass


def _post_bounds_for(owner):
    def _post_bounds(self, x, result):
        return _post_bounds_impl(owner, self, x, result)
    return _post_bounds


def _post_bounds_impl(owner, self, x, result):
    import jax
    col = _COLLECT
    if col is None or isinstance(result, jax.core.Tracer):
        return True
    rec = col["rec"]
    cls = type(self).__name__
    if cls != owner:
        return True  # a subclass reusing the parent's forward internally: not a client-boundary call
    r = np.atleast_1d(np.asarray(result, dtype=np.float64))
    xin = np.broadcast_to(np.atleast_1d(np.asarray(x, dtype=np.float64)), r.shape)
    fin_in = np.isfinite(xin)
    if cls == "SigmoidTransform":
        lo, hi = float(self.lower), float(self.lower) + float(self.width)
    elif cls == "NegSoftplusTransform":
        lo, hi = -math.inf, float(self.lower)  # the constructor stores `upper` in .lower
    else:
        lo, hi = float(self.lower), math.inf
    slack = 4 * np.finfo(np.float64).eps * max(abs(lo) if np.isfinite(lo) else 0, abs(hi) if np.isfinite(hi) else 0, 1e-300)
    ok = np.isfinite(r) & (r >= lo - slack) & (r <= hi + slack)
    ok = ok | ~fin_in
    rec.held("bounds", int(ok.sum()))
    if not ok.all():
        i = int(np.argmax(~ok))
        rec._c("bounds", "violated", int((~ok).sum()) - 1)
        rec.violated("bounds", transform=cls, x=float(xin.ravel()[i]), got=float(r.ravel()[i]), lower=lo, upper=hi,
                     n_bad=int((~ok).sum()))
    return True


def worker_init():
    global _INSTALLED
    if _INSTALLED:
        return
    import icontract
    import jaxley.optimize.transforms as jt
    for cls in (jt.SigmoidTransform, jt.SoftplusTransform, jt.NegSoftplusTransform):
        cls.forward = icontract.ensure(_post_bounds_for(cls.__name__), error=BoundsBroken)(cls.forward)
    _INSTALLED = True


def build(spec):
    import jax.numpy as jnp
    import jaxley.optimize.transforms as jt
    t = spec["t"]
    if t == "sigmoid":
        return jt.SigmoidTransform(spec["lower"], spec["upper"])
    if t == "softplus":
        return jt.SoftplusTransform(spec["lower"])
    if t == "negsoftplus":
        return jt.NegSoftplusTransform(spec["upper"])
    if t == "affine":
        return jt.AffineTransform(spec["scale"], spec["shift"])
    if t == "custom":
        a, b = spec["a"], spec["b"]
        return jt.CustomTransform(lambda x: a * x + b, lambda y: (y - b) / a)
    if t == "chain":
        return jt.ChainTransform([build(p) for p in spec["parts"]])
    if t == "masked":
        mask = np.random.default_rng(spec["mask_seed"]).random(NX) < 0.5
        return jt.MaskedTransform(jnp.asarray(mask), build(spec["inner"]))
    raise ValueError(t)


def inputs(rng, regime):
    if regime == "moderate":
        x = rng.uniform(-10, 10, NX)
    elif regime == "saturated":
        x = rng.choice([-1.0, 1.0], NX) * rng.uniform(15, 40, NX)
    elif regime == "wide":
        x = rng.choice([-1.0, 1.0], NX) * trees.logu(rng, 1e-6, 1e6, NX)
    else:
        x = rng.uniform(-40, 40, NX)
    x[:6] = [0.0, 20.0, -20.0, 19.999999, 20.000001, -25.0]
    # neighbourhoods of round values at which guarded implementations typically switch branch (|x| = 15, 20, 30, 35): a switch
    # must not cost monotonicity or the round trip, at any distance from 1 ulp to 1e-6
    t = float(rng.choice([15.0, 20.0, 20.0, 30.0, 35.0])) * float(rng.choice([-1.0, 1.0]))
    nb = [np.nextafter(t, np.inf), np.nextafter(t, -np.inf), t + 1e-12, t - 1e-12, t + 1e-9, t - 1e-9, t + 3e-8, t - 3e-8, t]
    x[6:6 + len(nb)] = nb
    return x


def _leafspecs(spec):
    if spec["t"] == "chain":
        return [q for p in spec["parts"] for q in _leafspecs(p)]
    if spec["t"] == "masked":
        return _leafspecs(spec["inner"])
    return [spec]


def run_case(case, rec):
    global _COLLECT
    import jax
    import jax.numpy as jnp
    import mpmath as mp
    from jxmon.core import Refused

    worker_init()
    rng = trees.rng_for(case["k"], PID, 3)
    _COLLECT = {"rec": rec}
    try:
        if case["kind"] == "param":
            return _param(case, rec, rng)
        spec = case["spec"]
        tf = build(spec)
        x = inputs(rng, case["regime"])
        single = spec["t"] in ("sigmoid", "softplus", "negsoftplus", "affine", "custom")
        signs = "".join("+" if (spec.get(k, 0) or 0) >= 0 else "-" for k in ("lower", "upper", "scale"))
        rec.sig(f"{spec['t']}|{signs}|{case['regime']}")
        # ---------- forward on the batch (bounds contract fires inside), monotone
        try:
            y = np.asarray(rec.call("roundtrip", tf.forward, jnp.asarray(x), where=f"{spec['t']}.forward"), dtype=np.float64)
        except Refused:
            return
        if spec["t"] != "masked":
            order = np.argsort(x, kind="stable")
            ys = y[order]
            if single:
                sign = -1.0 if spec["t"] == "affine" and spec["scale"] < 0 else 1.0
            else:
                sign = 1.0
                for q in (_leafspecs(spec)):
                    if q["t"] == "affine" and q["scale"] < 0:
                        sign = -sign
            d = np.diff(ys) * sign
            scale = np.maximum(np.abs(ys[1:]), np.abs(ys[:-1]))
            ok = np.all(np.isfinite(ys)) and np.all(d >= -4e-16 * scale - 1e-300)
            i = int(np.argmax(d < -4e-16 * scale - 1e-300)) if not ok and np.all(np.isfinite(ys)) else 0
            rec.check("monotone", ok, transform=spec["t"], spec=spec, x_pair=[float(np.sort(x)[i]), float(np.sort(x)[i + 1])],
                      y_pair=[float(ys[i]), float(ys[i + 1])])
        # ---------- round trips
        try:
            xb = np.asarray(rec.call("roundtrip", tf.inverse, jnp.asarray(y), where=f"{spec['t']}.inverse"), dtype=np.float64)
        except Refused:
            return
        if single:
            lo, hi = declared(spec)
            for i in range(NX):
                ye = exact_forward(spec, float(x[i]))
                yd = float(ye)
                if not (lo < yd < hi) or not math.isfinite(yd):
                    rec.skipped("roundtrip", "exact forward value rounds onto a bound")
                    continue
                # admissible error: the exact inverse evaluated at the value perturbed by the rounding a backward-stable
                # implementation commits (4 eps relative to the largest operand: y, lower, upper)
                mag = max(abs(yd), abs(lo) if math.isfinite(lo) else 0.0, abs(hi) if math.isfinite(hi) else 0.0)
                dy = 4 * 2.0**-52 * mag + 1e-300
                if (math.isfinite(lo) and yd - dy <= lo) or (math.isfinite(hi) and yd + dy >= hi):
                    rec.skipped("roundtrip", "exact forward value rounds onto a bound")
                    continue
                tol = mp.mpf(0)
                invs = [exact_inverse(spec, yk) for yk in (yd - dy, yd + dy)]
                if any(q is None for q in invs):
                    rec.skipped("roundtrip", "exact forward value rounds onto a bound")
                    continue
                for inv in invs:
                    tol = max(tol, abs(inv - mp.mpf(float(x[i]))))
                tol = tol + mp.mpf(1e-9) * (1 + abs(x[i]))
                # the forward value actually returned may differ from the exact one by rounding of lower+width*s
                err = abs(mp.mpf(float(xb[i])) - mp.mpf(float(x[i]))) if math.isfinite(xb[i]) else mp.inf
                if err <= tol:
                    rec.held("roundtrip")
                else:
                    rec.violated("roundtrip", direction="inverse(forward(x))", transform=spec["t"], spec=spec, x=float(x[i]),
                                 forward=float(y[i]), exact_forward=yd, back=float(xb[i]), tol=float(tol))
            # y -> x -> y for in-range y (incl. values very close to the bounds)
            ys_in = _inrange(rng, spec, 64)
            if len(ys_in):
                try:
                    xi = np.asarray(rec.call("roundtrip", tf.inverse, jnp.asarray(ys_in), where="inverse(y)"), dtype=np.float64)
                    yb = np.asarray(rec.call("roundtrip", tf.forward, jnp.asarray(xi), where="forward(inverse(y))"), dtype=np.float64)
                except Refused:
                    return
                for i in range(len(ys_in)):
                    xe = exact_inverse(spec, float(ys_in[i]))
                    if xe is None or abs(xe) > 1e300:
                        rec.skipped("roundtrip", "y not strictly inside the declared interval")
                        continue
                    xd = float(xe)
                    mag = max(abs(ys_in[i]), abs(lo) if math.isfinite(lo) else 0, abs(hi) if math.isfinite(hi) else 0)
                    tol = mp.mpf(1e-9) * (1 + abs(ys_in[i])) + 8 * mp.mpf(2.0**-52) * mag
                    for k in (-2, 2):
                        tol = max(tol, abs(exact_forward(spec, _ulp_step(xd, k)) - mp.mpf(float(ys_in[i]))) + mp.mpf(1e-9) * (1 + abs(ys_in[i])))
                    err = abs(mp.mpf(float(yb[i])) - mp.mpf(float(ys_in[i]))) if math.isfinite(yb[i]) else mp.inf
                    if err <= tol:
                        rec.held("roundtrip")
                    else:
                        rec.violated("roundtrip", direction="forward(inverse(y))", transform=spec["t"], spec=spec, y=float(ys_in[i]),
                                     inverse=float(xi[i]), exact_inverse=xd, back=float(yb[i]), tol=float(tol))
        else:
            # chains / masks: judged in the well-conditioned regime only, generous tolerance
            if case["regime"] == "moderate" and all(q["t"] in ("affine", "custom") or True for q in _leafspecs(spec)):
                ok = np.isfinite(xb) & (np.abs(xb - x) <= 1e-6 * (1 + np.abs(x)))
                # a chain can legitimately saturate (e.g. sigmoid into a narrow interval then softplus): judge only
                # where the exact composition is invertible in doubles: use the per-stage exact model
                judged = 0
                for i in range(NX):
                    if _chain_representable(spec, float(x[i]), i):
                        judged += 1
                        if ok[i]:
                            rec.held("roundtrip")
                        else:
                            rec.violated("roundtrip", direction="inverse(forward(x))", transform=spec["t"], spec=spec, x=float(x[i]),
                                         forward=float(y[i]), back=float(xb[i]), tol=1e-6 * (1 + abs(float(x[i]))))
                if not judged:
                    rec.skipped("roundtrip", "composition ill-conditioned on this batch")
        # ---------- jit equivalence
        try:
            yj = np.asarray(rec.call("jit_equiv", jax.jit(tf.forward), jnp.asarray(x), where="jit forward"), dtype=np.float64)
            xj = np.asarray(rec.call("jit_equiv", jax.jit(tf.inverse), jnp.asarray(y), where="jit inverse"), dtype=np.float64)
        except Refused:
            return
        mags = [abs(q.get(k, 0.0)) for q in _leafspecs(spec) for k in ("lower", "upper", "shift", "b")]
        atol = 1e-13 * (1.0 + max(mags + [0.0]))  # XLA may fuse/reorder: rounding scales with the operands' magnitudes
        close = lambda a, b: np.array_equal(np.isnan(a), np.isnan(b)) and np.allclose(a, b, rtol=1e-12, atol=atol, equal_nan=True)
        # inverse: XLA may rewrite x/c as x*(1/c) (1 ulp), which an ill-conditioned inverse stage amplifies without
        # bound.  Judge jit == eager where the eager inverse is well conditioned: a 4-ulp change of its input moves it
        # by less than 1e-9 relative.
        # the perturbation is relative to the LARGEST operand an inverse stage combines the value with (a shift of 1800 makes the
        # intermediate's ulp 2e-13 whatever the size of y: a perturbation relative to |y| alone vanished in that rounding and
        # declared an ill-conditioned inverse well conditioned - false alarm in the thorough tier, seed 1), in both directions
        dy = 8 * 2.0**-52 * np.maximum(np.abs(y), max(mags + [0.0])) + 1e-300
        with np.errstate(all="ignore"):
            well = np.isfinite(xb)
            for ypert in (y + dy, y - dy):
                xb2 = np.asarray(tf.inverse(jnp.asarray(ypert)), dtype=np.float64)
                well = well & np.isfinite(xb2) & (np.abs(xb2 - xb) <= 1e-9 * (1 + np.abs(xb)))
        inv_ok = bool(np.all(np.isfinite(xj[well])) and np.allclose(xj[well], xb[well], rtol=1e-7, atol=1e-7))
        rec.check("jit_equiv", close(yj, y) and inv_ok, transform=spec["t"], spec=spec,
                  max_dev_forward=float(np.nanmax(np.abs(yj - y))) if np.isfinite(yj - y).any() else None)
    finally:
        _COLLECT = None


def _chain_representable(spec, x, idx):
    """Exact per-stage evaluation: every stage's exact output must lie strictly inside that stage's
    declared interval with a relative margin, so that the inverse stages are well conditioned."""
    import mpmath as mp

    def go(sp, val):
        if sp["t"] == "chain":
            for p in sp["parts"]:
                val = go(p, val)
                if val is None:
                    return None
            return val
        if sp["t"] == "masked":
            mask = np.random.default_rng(sp["mask_seed"]).random(NX) < 0.5
            return go(sp["inner"], val) if mask[idx] else val
        if abs(val) > 12:
            return None
        out = exact_forward(sp, val)
        lo, hi = declared(sp)
        if sp["t"] == "sigmoid":
            s = (out - mp.mpf(lo)) / (mp.mpf(hi) - mp.mpf(lo))
            if not (mp.mpf("1e-5") < s < 1 - mp.mpf("1e-5")):
                return None
            if max(abs(lo), abs(hi)) > 1e3 * (hi - lo):
                return None
        if sp["t"] in ("softplus", "negsoftplus"):
            b = lo if sp["t"] == "softplus" else hi
            if abs(out - mp.mpf(b)) < mp.mpf("1e-5") * (1 + abs(b)):
                return None
        return out

    return go(spec, mp.mpf(x)) is not None


def _inrange(rng, spec, n):
    lo, hi = declared(spec)
    t = spec["t"]
    if t == "sigmoid":
        u = np.concatenate([rng.uniform(0, 1, n - 8), [1e-12, 1e-6, 0.5, 1 - 1e-6, 1 - 1e-12, 0.25, 1e-9, 1 - 1e-9]])
        y = lo + (hi - lo) * u
        return y[(y > lo) & (y < hi)]
    if t == "softplus":
        z = np.concatenate([trees.logu(rng, 1e-12, 1e3, n - 4), [1e-12, 19.5, 20.5, 50.0]])
        y = lo + z
        return y[y > lo]
    if t == "negsoftplus":
        z = np.concatenate([trees.logu(rng, 1e-12, 1e3, n - 4), [1e-12, 19.5, 20.5, 50.0]])
        y = hi - z
        return y[y < hi]
    return rng.uniform(-100, 100, n)


def _param(case, rec, rng):
    """ParamTransform on a pytree: every leaf equals its own transform applied alone; jit == eager."""
    import jax
    import jax.numpy as jnp
    from jaxley.optimize.transforms import ParamTransform
    from jxmon.core import Refused

    tfs, params, ref_f, names = [], [], [], []
    for j, sp in enumerate(case["leaves"]):
        t = build(sp)
        shape = (NX,) if sp["t"] == "masked" or any(q["t"] == "masked" for q in sp.get("parts", [])) else (int(rng.integers(1, 7)),)
        if sp["t"] == "chain" and any(p["t"] == "masked" for p in sp["parts"]):
            shape = (NX,)
        x = jnp.asarray(rng.uniform(-6, 6, shape))
        names.append(["radius", "HH_gNa"][j % 2])  # the same key in several entries, as repeated make_trainable("radius") calls give
        tfs.append({names[-1]: t})
        params.append({names[-1]: x})
        ref_f.append(np.asarray(t.forward(x)))
    pt = ParamTransform(tfs)
    try:
        f = rec.call("leafwise", pt.forward, params, where="ParamTransform.forward")
        b = rec.call("leafwise", pt.inverse, f, where="ParamTransform.inverse")
        fj = rec.call("jit_equiv", jax.jit(pt.forward), params, where="jit ParamTransform.forward")
    except Refused:
        return
    ok_struct = isinstance(f, list) and len(f) == len(params) and all(list(a) == list(p) for a, p in zip(f, params))
    rec.check("leafwise", ok_struct, what="pytree structure changed", got=str(jax.tree_util.tree_structure(f)))
    if not ok_struct:
        return
    for j, sp in enumerate(case["leaves"]):
        key = names[j]
        rec.check("leafwise", np.array_equal(np.asarray(f[j][key]), ref_f[j], equal_nan=True), leaf=j, spec=sp,
                  what="leaf differs from its own transform applied alone")
        ref_b = np.asarray(tfs[j][key].inverse(jnp.asarray(ref_f[j])))
        rec.check("leafwise", np.array_equal(np.asarray(b[j][key]), ref_b, equal_nan=True), leaf=j, spec=sp,
                  what="inverse leaf differs from its own inverse applied alone")
        rec.check("jit_equiv", np.allclose(np.asarray(fj[j][key]), ref_f[j], rtol=1e-12, atol=1e-300, equal_nan=True), leaf=j, spec=sp)
    rec.sig("param|" + ",".join(sp["t"] for sp in case["leaves"]))


def classify(case, v):
    d = v.get("detail", {})
    return None
