"""C05 - gradients obtained by differentiating through a simulation are correct.

Events: jax.jit(jax.grad(loss))(theta) and jit(loss)(theta +- h e_i) on the same module.
Oracle R7: central finite differences of the same simulated loss in float64, three step sizes, best
agreement.  Secondary: forward-mode jvp against the reverse-mode gradient along random directions.
theta gathers every trainable family named in the property: channel and synapse parameters, radius,
length, axial resistivity, capacitance, initial voltage and gate states, a data-fed stimulus amplitude
and a data_set value; sharing per compartment / branch / cell / group with groups of unequal size.
"""
import numpy as np

from jxmon.gen import models, trees

PID = 5
RULE = ("active models (HH everywhere relevant + random other channels, synapses of up to 3 types, <=10 compartments, 5-25 steps); "
        "2-5 make_trainable calls drawn from {channel param, synapse param, radius, length, axial_resistivity, capacitance, "
        "initial v, initial HH_m} with sharing per comp/branch/cell/whole-view (unequal group sizes), plus a data-fed stimulus "
        "scale and a data_set value; solver x backend x checkpoint_lengths in {None,[T],[a,b],[a,b,c] (>= T)}; loss = random "
        "linear functional + sum of squares of recorded voltages. distinct = (kind, solver, backend, checkpoint class, key "
        "families, sharing kinds)")
ASSUMPTIONS = ["float64; finite-difference noise floor ~1e-7 relative: acceptance 2e-5 relative or 2e-7*(1+|L|) absolute",
               "differentiable points only (the clip of save_exp at exponent 20 is not reached by the generated models)"]
MECHANISMS = ["jaxley.integrate:integrate", "jaxley.modules.base:Module.get_all_parameters", "jaxley.modules.base:Module.get_all_states",
              "jaxley.utils.jax_utils:nested_checkpoint_scan", "jaxley.solver_gate:save_exp", "jaxley.channels.hh:_vtrap",
              "jaxley.utils.cell_utils:compute_axial_conductances", "jaxley.modules.base:Module.data_set",
              "jaxley.modules.base:Module.data_stimulate"]
MECHANISMS_REQUIRED = ["jaxley.integrate:integrate", "jaxley.modules.base:Module.get_all_parameters", "jaxley.utils.cell_utils:compute_axial_conductances"]
REQUIRED = {"quick": {"grad_fd": 80},
            "thorough": {"grad_fd": 1318}}
WALL_BUDGET = {"quick": 1500, "thorough": 5 * 3600}
NODE_KEYS = ["radius", "length", "axial_resistivity", "capacitance", "v", "HH_gNa", "HH_gK", "HH_eK", "HH_gLeak", "HH_m", "HH_eNa"]


def cases(seed, tier):
    n = 32 if tier == "quick" else 560
    out = []
    for k in range(n):
        rng = trees.rng_for(seed, PID, k)
        kind = ["cell", "network", "cell", "branch", "network", "comp"][k % 6]
        spec = models.random_active(rng, kind=kind, max_comps=10, T=(5, 25), channels=("HH", "Leak", "K", "Na", "Km", "CaL"),
                                    homogeneous_net=(k % 2 == 0))
        ncomp = trees.total_comps(spec["struct"])
        hh_rows = spec["ins"][0]["rows"]
        tr = []
        keys = [str(x) for x in rng.choice(NODE_KEYS, int(rng.integers(2, 5)), replace=False)]
        if "capacitance" not in keys and k % 3 == 0:
            keys.append("capacitance")
        if k % 8 in (3, 6) and "v" not in keys:
            keys.append("v")
        single = (k % 4 == 3)
        if single:  # one family alone (no other trainable, no data_set): derivative paths that only exist in isolation
            keys = [NODE_KEYS[(k // 4) % len(NODE_KEYS)]] if k % 8 != 3 else ["v"]
        for key in keys:
            share = str(rng.choice(["comp", "branch", "cell", "all"]))
            dom = hh_rows if key.startswith("HH_") else list(range(ncomp))
            rows = sorted(set(int(x) for x in rng.choice(dom, int(rng.integers(1, len(dom) + 1)), replace=False)))
            tr.append({"key": key, "share": share, "rows": rows})
        if spec["syn"] and not single:
            tr.append({"key": "SYN_G", "share": str(rng.choice(["edge", "all"])), "rows": None})
            if any(s[2] == 0 for s in spec["syn"]):
                tr.append({"key": "IonotropicSynapse_k_minus", "share": "all", "rows": None})
        be = models.backends_for(spec)
        backend = be[k % len(be)]
        solver = ["bwd_euler", "crank_nicolson"][k % 2]
        T = spec["T"]
        cl = [None, [T], None, [2, T // 2 + 1], [2, 2, T // 4 + 1]][k % 5]
        if cl == [T]:
            f = [a for a in range(2, T) if T % a == 0]
            cl = [f[0], T // f[0]] if f and k % 2 else [T]
        out.append({"spec": spec, "trainables": tr, "backend": backend, "solver": solver, "checkpoint": cl,
                    "wseed": int(rng.integers(0, 2**31)), "data_set": bool(k % 2 == 0) and not single, "jvp": bool(k % 3 == 0),
                    "fixed_stim": bool(single), "singular_v": bool(k % 8 in (3, 6))})
    return out


def run_case(case, rec):
    import jax
    import jax.numpy as jnp
    import jaxley as jx
    from jax.flatten_util import ravel_pytree
    from jxmon.core import Refused

    spec = case["spec"]
    T, dt = spec["T"], spec["dt"]
    if case.get("singular_v"):
        # where-guards of the rate functions must differentiate correctly AT the removable singularities
        pv = spec["params"]["v"]
        for j, r in enumerate(spec["ins"][0]["rows"]):
            pv[r] = [-55.0, -40.0][j % 2]
    m, recs = rec.call("build", models.build_active, spec, stimulate=False, record="v")
    rng = np.random.default_rng(case["wseed"])
    families, sharing = [], []
    for t in case["trainables"]:
        key, share = t["key"], t["share"]
        try:
            if key == "SYN_G":
                col = [c for c in m.edges.columns if c.endswith(("_gS", "_gC"))][0]
                name = col.rsplit("_", 1)[0]
                v = getattr(m, name)
                v = v.edge("all") if share == "edge" else v
                v.make_trainable(col, verbose=False)
                families.append("syn_param"); sharing.append(share)
                continue
            if key == "IonotropicSynapse_k_minus":
                m.IonotropicSynapse.make_trainable(key, verbose=False)
                families.append("syn_param"); sharing.append("all")
                continue
            view = m.select(nodes=np.asarray(t["rows"]))
            if key not in view.nodes.columns or view.nodes[key].isna().all():
                continue
            if share == "comp":
                view = m.scope("global").comp(t["rows"]) if spec["struct"]["kind"] != "comp" else view
            elif share == "branch" and spec["struct"]["kind"] in ("cell", "network"):
                bs = sorted(set(m.nodes.loc[t["rows"], "global_branch_index"].tolist()))
                view = m.scope("global").branch(bs)
            elif share == "cell" and spec["struct"]["kind"] == "network":
                cs = sorted(set(m.nodes.loc[t["rows"], "global_cell_index"].tolist()))
                view = m.scope("global").cell(cs)
            else:
                view = m.select(nodes=np.asarray(t["rows"]))
                view._set_controlled_by_param("all") if False else None
                # `select` gives one parameter per row; a named group gives one shared parameter
                view.add_to_group(f"g_{key}")
                view = getattr(m, f"g_{key}")
                share = "group"
            if view.nodes[key].isna().all():
                continue
            view.make_trainable(key, verbose=False)
            families.append("state" if key in ("v", "HH_m") else "geometry" if key in ("radius", "length", "axial_resistivity", "capacitance") else "chan_param")
            sharing.append(share)
        except (AssertionError, KeyError, ValueError) as e:
            rec.refused("grad_fd", e, where=f"make_trainable({key})")
    params0 = m.get_parameters()
    if not params0:
        rec.skipped("grad_fd", "no trainable could be created")
        return
    sizes = [int(np.asarray(i).shape[1]) for i in m.indices_set_by_trainables]
    theta0 = {"params": params0, "stim_scale": jnp.asarray(1.0), "ds": jnp.asarray(float(spec["params"]["radius"][0]))}
    n = 30 if False else None
    flat0, unravel = ravel_pytree(theta0)
    nrec = len(recs)
    w_lin = jnp.asarray(rng.normal(0, 1, (nrec, T + 1)))
    kw = dict(delta_t=dt, solver=case["solver"], voltage_solver=case["backend"], checkpoint_lengths=case["checkpoint"])

    def simulate(flat):
        th = unravel(flat)
        d = None
        for s in spec["stim"]:
            d = m.select(nodes=np.asarray(s["rows"])).data_stimulate(jnp.asarray(np.asarray(s["w"])) * th["stim_scale"], d)
        ps = m.select(nodes=[0]).data_set("radius", th["ds"], None) if case["data_set"] else None
        return jx.integrate(m, params=th["params"], param_state=ps, data_stimuli=d, **kw)

    def loss(flat):
        out = simulate(flat)
        return jnp.sum(w_lin * out) * 1e-2 + 1e-4 * jnp.sum((out + 60.0) ** 2)

    tag = dict(kind=spec["struct"]["kind"], solver=case["solver"], backend=case["backend"], checkpoint=case["checkpoint"], T=T,
               keys=[list(p)[0] for p in params0], group_sizes=sizes, unequal_groups=False)
    # unequal group sizes inside one trainable are visible as repeated indices (padding) in a row
    tag["unequal_groups"] = bool(any(len(set(np.asarray(r).tolist())) < len(np.asarray(r)) for i in m.indices_set_by_trainables for r in np.asarray(i)))
    try:
        lj = jax.jit(loss)
        L0 = float(rec.call("grad_fd", lj, flat0, where="jit(loss)"))
        g = np.asarray(rec.call("grad_fd", jax.jit(jax.grad(loss)), flat0, where="jit(grad(loss))"))
    except Refused:
        return
    if not np.isfinite(L0):
        rec.skipped("grad_fd", "loss not finite")
        return
    names = []
    for pi, p in enumerate(params0):
        for kname, val in p.items():
            names += [f"{kname}[{pi}:{j}]" for j in range(int(np.asarray(val).size))]
    names = names + ["data_set(radius)", "stim_scale"] if True else names
    # ravel_pytree orders dict keys alphabetically: ds, params, stim_scale
    names = ["data_set(radius)"] + names[:-2] + ["stim_scale"]
    x0 = np.asarray(flat0, dtype=np.float64)
    idx = list(range(len(x0)))
    if len(idx) > 14:
        idx = sorted(int(i) for i in rng.choice(len(x0), 14, replace=False))
    for i in idx:
        if names[i] == "data_set(radius)" and not case["data_set"]:
            continue
        if not np.isfinite(g[i]):
            rec.violated("grad_fd", param=names[i], value=float(x0[i]), grad=float(g[i]), what="gradient not finite although the loss is", loss=L0, **tag)
            continue
        best, fd_best = np.inf, 0.0
        for hrel in (1e-4, 1e-5, 1e-6, 1e-3):
            h = hrel * max(1.0, abs(x0[i]))
            e = np.zeros_like(x0)
            e[i] = h
            fd = (float(lj(jnp.asarray(x0 + e))) - float(lj(jnp.asarray(x0 - e)))) / (2 * h)
            err = abs(fd - g[i])
            if err < best:
                best, fd_best = err, fd
        tol = 2e-5 * max(abs(g[i]), abs(fd_best)) + 2e-7 * (1 + abs(L0))
        ok = np.isfinite(g[i]) and best <= tol
        rec.check("grad_fd", ok, param=names[i], value=float(x0[i]), grad=float(g[i]), finite_diff=float(fd_best), abs_err=float(best),
                  rel_err=float(best / max(abs(fd_best), 1e-300)), loss=L0, **tag)
    # forward mode vs reverse mode along random directions
    if case["jvp"] and np.all(np.isfinite(g)):
        try:
            for _ in range(2):
                dvec = rng.normal(0, 1, len(x0)) * np.maximum(1e-3, np.abs(x0))
                _, jv = rec.call("jvp_vjp", jax.jvp, loss, (flat0,), (jnp.asarray(dvec),), where="jax.jvp")
                want = float(np.dot(g, dvec))
                rec.check("jvp_vjp", abs(float(jv) - want) <= 1e-8 * (abs(want) + np.sum(np.abs(g * dvec))) + 1e-12, jvp=float(jv), vjp_dot=want, **tag)
        except Refused:
            pass
    rec.sig(f"{tag['kind']}|{case['solver']}|{case['backend']}|cl{'none' if case['checkpoint'] is None else len(case['checkpoint'])}|"
            f"{'+'.join(sorted(set(families)))}|{'+'.join(sorted(set(sharing)))}|uneq{int(tag['unequal_groups'])}")


def classify(case, v):
    return None
