"""R5 - independent SWC interpreter.

Reads the file itself and walks the tree: sections = maximal unbranched same-type paths; every
non-root section is listed with its branch-point parent first.  Documented conventions of read_swc
(docstrings/comments of jaxley.io.swc and cell_utils): single-point soma -> cylinder of length 2r;
in single-point-soma files the gap between the soma point and the first point of a neurite is ignored;
zero-length sections are set to 1 um; compartment radius = linear interpolation of the traced radii
over normalised path length at the compartment centre, where the branch-point radius is not used when
the section's type differs from its parent section's type; radii clipped to min_radius.
"""
import numpy as np

GROUP_NAMES = {0: "undefined", 1: "soma", 2: "axon", 3: "basal", 4: "apical", 5: "custom"}


def parse(path):
    rows = []
    with open(path) as f:
        for line in f:
            line = line.strip()
            if not line or line.startswith("#"):
                continue
            p = line.split()
            rows.append({"id": int(float(p[0])), "type": int(float(p[1])), "xyz": np.array([float(p[2]), float(p[3]), float(p[4])]),
                         "r": float(p[5]), "parent": int(float(p[6]))})
    return rows


def sections(rows):
    """-> list of dict(points=[ids incl. the branch-point parent first], own=[own ids], type, parent=index of parent section or -1)"""
    by_id = {r["id"]: r for r in rows}
    kids = {}
    for r in rows:
        kids.setdefault(r["parent"], []).append(r["id"])
    secs = []

    def walk(first, parent_sec, parent_point):
        t = by_id[first]["type"]
        own = [first]
        while True:
            ch = kids.get(own[-1], [])
            if len(ch) == 1 and by_id[ch[0]]["type"] == t:
                own.append(ch[0])
            else:
                break
        idx = len(secs)
        secs.append({"points": ([parent_point] if parent_point is not None else []) + own, "own": own, "type": t, "parent": parent_sec})
        for c in kids.get(own[-1], []):
            walk(c, idx, own[-1])
        return idx

    root = [r["id"] for r in rows if r["parent"] == -1]
    assert len(root) == 1, "single tree expected"
    import sys
    sys.setrecursionlimit(100000)
    walk(root[0], -1, None)
    return secs


def is_single_point_soma(rows):
    return rows[0]["type"] == 1 and (len(rows) < 2 or rows[1]["type"] != 1)


def seg_lengths(rows, sec, single_soma):
    by_id = {r["id"]: r for r in rows}
    pts = sec["points"]
    if len(pts) == 1:
        return np.array([2.0 * by_id[pts[0]]["r"]])
    xyz = np.array([by_id[p]["xyz"] for p in pts])
    d = np.sqrt(np.sum(np.diff(xyz, axis=0) ** 2, axis=1))
    if single_soma and by_id[pts[0]]["type"] == 1 and by_id[pts[1]]["type"] != 1:
        d[0] = 0.0  # gap between the soma point and the neurite is ignored
    return d


def length(rows, sec, single_soma):
    L = float(np.sum(seg_lengths(rows, sec, single_soma)))
    return 1.0 if L == 0.0 else L


def radii(rows, secs, i, ncomp, single_soma, min_radius=None):
    by_id = {r["id"]: r for r in rows}
    sec = secs[i]
    pts = sec["points"]
    r = np.array([by_id[p]["r"] for p in pts], dtype=float)
    if len(pts) == 1:
        out = np.full(ncomp, r[0])
    else:
        if sec["parent"] >= 0 and secs[sec["parent"]]["type"] != sec["type"]:
            r[0] = r[1]
        d = seg_lengths(rows, sec, single_soma).copy()
        d[d < 1e-8] = 1e-8
        cut = np.concatenate([[0.0], np.cumsum(d)]) / np.sum(d)
        loc = (np.arange(ncomp) + 0.5) / ncomp
        out = np.interp(loc, cut, r)
    if min_radius is not None:
        out = np.maximum(out, min_radius)
    return out


def key_of(rows, sec):
    """identify a section by the rounded coordinates+radius of its point list (what cell.xyzr shows)"""
    by_id = {r["id"]: r for r in rows}
    return tuple(tuple(np.round(np.concatenate([by_id[p]["xyz"], [by_id[p]["r"]]]), 5)) for p in sec["points"])


def group_name(t):
    return GROUP_NAMES.get(t, f"custom{t}")


def selftest_swcref():
    import os, tempfile
    txt = """1 1 0 0 0 5 -1
2 3 6 0 0 1 1
3 3 10 0 0 2 2
4 3 14 0 0 1 3
5 3 14 4 0 1 4
6 3 14 8 0 1 5
7 3 18 0 0 1 4
8 2 0 -7 0 1 1
9 2 0 -10 0 1 8
10 4 0 -15 0 1 9
"""
    fd, p = tempfile.mkstemp(suffix=".swc", dir=os.path.dirname(os.path.abspath(__file__)))
    os.write(fd, txt.encode()); os.close(fd)
    try:
        rows = parse(p)
    finally:
        os.remove(p)
    s = sections(rows)
    assert [x["points"] for x in s] == [[1], [1, 2, 3, 4], [4, 5, 6], [4, 7], [1, 8, 9], [9, 10]], [x["points"] for x in s]
    assert [x["parent"] for x in s] == [-1, 0, 1, 1, 0, 4]
    sp = is_single_point_soma(rows)
    assert sp
    L = [length(rows, x, sp) for x in s]
    assert np.allclose(L, [10.0, 8.0, 8.0, 4.0, 3.0, 5.0]), L
    assert np.allclose(radii(rows, s, 1, 3, sp), [4.0 / 3, 2.0, 4.0 / 3]), radii(rows, s, 1, 3, sp)
