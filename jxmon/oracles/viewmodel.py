"""R4 - view/selection model: the module hierarchy as plain arrays, independent of jaxley.

rows: arrays cell[i], branch[i], comp[i] of global ids for node row label i (= global comp id)
edges: arrays pre[e], post[e] (global comp ids), etype[e] for edge row label e
A view = (ordered node labels, set of edge labels, scope).
"""
import numpy as np


def dense_rank(values):
    u = np.unique(values)
    return np.searchsorted(u, values)


class VM:
    def __init__(self, cell, branch, comp, ncomp_per_branch, pre=(), post=(), etype=(), nodes=None, edges=None,
                 scope="local", groups=None, channels=None, root=None):
        self.cell, self.branch, self.comp = (np.asarray(a, dtype=int) for a in (cell, branch, comp))
        self.ncomp_per_branch = np.asarray(ncomp_per_branch, dtype=int)
        self.pre, self.post = np.asarray(pre, dtype=int), np.asarray(post, dtype=int)
        self.etype = np.asarray(etype, dtype=object)
        self.nodes = np.arange(len(self.cell)) if nodes is None else np.asarray(nodes, dtype=int)
        self.edges = np.arange(len(self.pre)) if edges is None else np.asarray(edges, dtype=int)
        self.scope_ = scope
        self.groups = groups if groups is not None else {}
        self.channels = channels if channels is not None else {}
        self.root = root or self

    # ---- helpers
    def _child(self, nodes=None, edges=None, scope=None):
        return VM(self.cell, self.branch, self.comp, self.ncomp_per_branch, self.pre, self.post, self.etype,
                  self.nodes if nodes is None else nodes, self.edges if edges is None else edges,
                  self.scope_ if scope is None else scope, self.groups, self.channels, self.root)

    def local_cols(self):
        """dense ranks within parents among what is in view -> (lcell, lbranch, lcomp) aligned with self.nodes"""
        c, b, k = self.cell[self.nodes], self.branch[self.nodes], self.comp[self.nodes]
        lc = dense_rank(c)
        lb = np.zeros_like(b)
        lk = np.zeros_like(k)
        for cc in np.unique(c):
            m = c == cc
            lb[m] = dense_rank(b[m])
        for bb in np.unique(b):  # global branch ids are unique across cells
            m = b == bb
            lk[m] = dense_rank(k[m])
        return lc, lb, lk

    def col(self, level):
        g = {"cell": self.cell, "branch": self.branch, "comp": self.comp}[level][self.nodes]
        if self.scope_ == "global":
            return g
        return dict(zip(("cell", "branch", "comp"), self.local_cols()))[level]

    def _edges_for_nodes(self, nodes):
        comps = set(self.comp[nodes].tolist())
        keep = [e for e in self.edges if self.pre[e] in comps and self.post[e] in comps]
        return np.asarray(keep, dtype=int)

    # ---- operations (return a new VM or None when nothing is in view)
    def scope(self, s):
        return self._child(scope=s)

    def at(self, level, values):
        """values: iterable of index values in the current scope, or 'all'"""
        c = self.col(level)
        mask = np.ones(len(c), bool) if isinstance(values, str) else np.isin(c, np.asarray(list(values), dtype=int))
        nodes = self.nodes[mask]
        if len(nodes) == 0:
            return None
        return self._child(nodes=nodes, edges=self._edges_for_nodes(nodes))

    def select(self, nodes=None, edges=None):
        if nodes is not None and edges is None:
            nodes = np.asarray(nodes, dtype=int)
            if len(nodes) == 0:
                return None
            return self._child(nodes=nodes, edges=self._edges_for_nodes(nodes))
        if nodes is None and edges is not None:
            edges = np.asarray(edges, dtype=int)
            comps = set(self.pre[edges].tolist()) | set(self.post[edges].tolist())
            nn = np.asarray([n for n in self.nodes if self.comp[n] in comps], dtype=int)
            if len(nn) == 0:
                return None
            return self._child(nodes=nn, edges=edges)
        if nodes is None and edges is None:
            return self._child()
        nodes = np.asarray(nodes, dtype=int)
        if len(nodes) == 0:
            return None
        return self._child(nodes=nodes, edges=np.asarray(edges, dtype=int))

    def edge_global(self, values):
        mask = np.ones(len(self.edges), bool) if isinstance(values, str) else np.isin(self.edges, np.asarray(list(values), dtype=int))
        return self.select(edges=self.edges[mask]) if mask.any() else None

    def loc_candidates(self, x):
        """per branch in view: set of acceptable global comps (closed-interval rule, both neighbours at a boundary)"""
        starts = np.concatenate([[0], np.cumsum(self.ncomp_per_branch)])
        out = []
        for b in np.unique(self.branch[self.nodes]):
            n = self.ncomp_per_branch[b]
            ks = [k for k in range(n) if k / n - 1e-9 <= x <= (k + 1) / n + 1e-9]
            out.append((int(b), [int(starts[b] + k) for k in ks]))
        return out

    def group(self, name):
        members = np.intersect1d(self.groups.get(name, np.asarray([], dtype=int)), self.nodes)
        # order as in jaxley: select(self.groups[key]) with groups of a view = intersect1d (sorted)
        return self.select(nodes=members) if len(members) else None

    def channel(self, name):
        rows = np.asarray([n for n in self.nodes if n in self.channels.get(name, set())], dtype=int)
        return self.select(nodes=rows) if len(rows) else None

    def synapse(self, name):
        es = np.asarray([e for e in self.edges if self.etype[e] == name], dtype=int)
        if len(es) == 0:
            return None
        return self.scope("global").edge_global(es).scope(self.scope_)


def selftest_viewmodel():
    # net: cell0 = branches [2 comps, 1 comp], cell1 = branch [3 comps]
    cell = [0, 0, 0, 1, 1, 1]
    branch = [0, 0, 1, 2, 2, 2]
    comp = list(range(6))
    vm = VM(cell, branch, comp, [2, 1, 3], pre=[0, 3], post=[4, 2], etype=["A", "B"])
    v = vm.at("cell", [1])
    assert v.nodes.tolist() == [3, 4, 5] and v.edges.tolist() == []
    # local scope: branch 0 of every cell
    v = vm.at("branch", [0])
    assert v.nodes.tolist() == [0, 1, 3, 4, 5]
    assert v.edges.tolist() == [0]
    # local comp 1 within each branch
    v = vm.at("comp", [1])
    assert v.nodes.tolist() == [1, 4]
    # global scope
    v = vm.scope("global").at("branch", [2]).scope("local").at("comp", [0])
    assert v.nodes.tolist() == [3]
    # dense re-ranking after a partial selection
    v = vm.select(nodes=[1, 5])
    lc, lb, lk = v.local_cols()
    assert lc.tolist() == [0, 1] and lb.tolist() == [0, 0] and lk.tolist() == [0, 0]
    assert vm.at("cell", [7]) is None
    assert vm.loc_candidates(0.5)[0] == (0, [0, 1]) and vm.loc_candidates(1.0)[2] == (2, [5])
