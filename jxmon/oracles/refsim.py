"""R3 - reference simulator: what `integrate` must compute for the model displayed by the tables.

Reads ONLY public tables/attributes passed in as plain data (nodes/edges as dict of numpy columns,
parents, ncomp per branch, recordings, externals) and the published kinetics (float64 versions of
R2). One step = (1) external current of sample k, (2) gate update at the OLD voltage with the closed
form, (3) membrane currents at the NEW gates linearised by a two-point secant (delta = 1e-3 mV),
(4) synaptic state from the OLD pre voltage, (5) synaptic currents into the POST compartment as
absolute currents (scheme-ambiguity set for pre-voltage dependent currents), (6) state clamps,
(7) voltage solve with R1, (8) voltage clamps.  Recordings sample the listed rows.
"""
import numpy as np

from jxmon.oracles import cable


def _xexpm1(x):
    x = np.asarray(x, dtype=float)
    small = np.abs(x) < 1e-8
    xs = np.where(small, 1.0, x)
    return np.where(small, 1.0 - x / 2.0, xs / np.expm1(np.minimum(xs, 700.0)))


def _ab(a, b):
    return a / (a + b), 1.0 / (a + b)


def gate_HH(g, v, P):
    if g == "m":
        return _ab(0.1 * 10 * _xexpm1(-(v + 40) / 10), 4 * np.exp(-(v + 65) / 18))
    if g == "h":
        return _ab(0.07 * np.exp(-(v + 65) / 20), 1 / (np.exp(-(v + 35) / 10) + 1))
    return _ab(0.01 * 10 * _xexpm1(-(v + 55) / 10), 0.125 * np.exp(-(v + 65) / 80))


def gate_Na(g, v, P):
    vt = P["vt"]
    if g == "m":
        return _ab(0.32 * 4 * _xexpm1(-(v - vt - 13) / 4), 0.28 * 5 * _xexpm1((v - vt - 40) / 5))
    return _ab(0.128 * np.exp(-(v - vt - 17) / 18), 4 / (1 + np.exp(-(v - vt - 40) / 5)))


def gate_K(g, v, P):
    vt = P["vt"]
    return _ab(0.032 * 5 * _xexpm1(-(v - vt - 15) / 5), 0.5 * np.exp(-(v - vt - 10) / 40))


def gate_Km(g, v, P, p="Km"):
    return 1 / (1 + np.exp(-(v + 35) / 10)), P[f"{p}_taumax"] / (3.3 * np.exp((v + 35) / 20) + np.exp(-(v + 35) / 20))


def gate_CaL(g, v, P):
    if g == "q":
        return _ab(0.055 * 3.8 * _xexpm1((-27 - v) / 3.8), 0.94 * np.exp((-75 - v) / 17))
    return _ab(0.000457 * np.exp((-13 - v) / 50), 0.0065 / (np.exp((-15 - v) / 28) + 1))


def gate_CaT(g, v, P, p="CaT"):
    vx = P[f"{p}_vx"]
    return 1 / (1 + np.exp((v + vx + 81) / 4)), (30.8 + (211.4 + np.exp((v + vx + 113.2) / 5))) / (3.7 * (1 + np.exp((v + vx + 84) / 3.2)))


CHANNELS = {
    "HH": {"gates": ["m", "h", "n"], "fn": gate_HH,
           "cur": lambda v, S, P, p: P[f"{p}_gNa"] * S[f"{p}_m"] ** 3 * S[f"{p}_h"] * (v - P[f"{p}_eNa"]) + P[f"{p}_gK"] * S[f"{p}_n"] ** 4 * (v - P[f"{p}_eK"])
           + P[f"{p}_gLeak"] * (v - P[f"{p}_eLeak"]), "params": ["{p}_gNa", "{p}_gK", "{p}_gLeak", "{p}_eNa", "{p}_eK", "{p}_eLeak"], "cname": "i_HH"},
    "Leak": {"gates": [], "fn": None, "cur": lambda v, S, P, p: P[f"{p}_gLeak"] * (v - P[f"{p}_eLeak"]), "params": ["{p}_gLeak", "{p}_eLeak"], "cname": "i_{p}"},
    "Na": {"gates": ["m", "h"], "fn": gate_Na, "cur": lambda v, S, P, p: P[f"{p}_gNa"] * S[f"{p}_m"] ** 3 * S[f"{p}_h"] * (v - P["eNa"]),
           "params": ["{p}_gNa", "eNa", "vt"], "cname": "i_Na"},
    "K": {"gates": ["n"], "fn": gate_K, "cur": lambda v, S, P, p: P[f"{p}_gK"] * S[f"{p}_n"] ** 4 * (v - P["eK"]), "params": ["{p}_gK", "eK", "vt"], "cname": "i_K"},
    "Km": {"gates": ["p"], "fn": gate_Km, "cur": lambda v, S, P, p: P[f"{p}_gKm"] * S[f"{p}_p"] * (v - P["eK"]), "params": ["{p}_gKm", "{p}_taumax", "eK"], "cname": "i_K"},
    "CaL": {"gates": ["q", "r"], "fn": gate_CaL, "cur": lambda v, S, P, p: P[f"{p}_gCaL"] * S[f"{p}_q"] ** 2 * S[f"{p}_r"] * (v - P["eCa"]),
            "params": ["{p}_gCaL", "eCa"], "cname": "i_Ca"},
    "CaT": {"gates": ["u"], "fn": gate_CaT,
            "cur": lambda v, S, P, p: P[f"{p}_gCaT"] * (1 / (1 + np.exp(-(v + P[f"{p}_vx"] + 57) / 6.2))) ** 2 * S[f"{p}_u"] * (v - P["eCa"]),
            "params": ["{p}_gCaT", "{p}_vx", "eCa"], "cname": "i_Ca"},
}
SYN_STATES = {"IonotropicSynapse": "IonotropicSynapse_s", "TestSynapse": "TestSynapse_c", "TanhRateSynapse": None}


def run(model, nsteps, dt, scheme="bwd_euler", variant="joint"):
    """model: dict with
      cells: [{'parents','ncomp'}], nodes: {col: np.array}, channels: [(class name, prefix)], edges: {col: np.array} (may be empty),
      recordings: [(state, index)], externals: {key: (T, k) array}, external_inds: {key: [indices]}
    -> (n_rec, nsteps+1) array"""
    nd = {k: np.array(v, dtype=float) if np.asarray(v).dtype != object else np.asarray(v) for k, v in model["nodes"].items()}
    n = len(nd["v"])
    cells = model["cells"]
    area, cap, _ = cable.geometry(nd["radius"], nd["length"], nd["axial_resistivity"], nd["capacitance"])
    st = {"v": nd["v"].copy()}
    chans = []
    for cls, p in model["channels"]:
        spec = CHANNELS[cls]
        present = np.asarray(model["nodes"][p]).astype(bool)
        chans.append((cls, p, spec, present))
        for g in spec["gates"]:
            st[f"{p}_{g}"] = nd[f"{p}_{g}"].copy()
    ed = model.get("edges") or {}
    ne = len(ed.get("type", []))
    for name, sname in SYN_STATES.items():
        if sname and sname in ed:
            st[sname] = np.array(ed[sname], dtype=float)
    cur_names = list(dict.fromkeys(spec["cname"].format(p=p) for cls, p, spec, pr in chans))

    def membrane(v):
        """-> (G density S/cm2 per comp, constant current density mA/cm2 per comp (I0 - slope v), current states)"""
        G, K0 = np.zeros(n), np.zeros(n)
        cst = {c: np.zeros(n) for c in cur_names}
        d = 1e-3
        for cls, p, spec, present in chans:
            P = {k.format(p=p): nd[k.format(p=p)] for k in spec["params"]}
            I0 = spec["cur"](v, st, P, p)
            I1 = spec["cur"](v + d, st, P, p)
            slope = (I1 - I0) / d
            G += np.where(present, slope, 0.0)
            K0 += np.where(present, I0 - slope * v, 0.0)
            cst[spec["cname"].format(p=p)] += np.where(present, I0, 0.0)
        return G, K0, cst

    def syn_currents(v):
        gabs, inj, icur = np.zeros(n), np.zeros(n), {}
        for e in range(ne):
            t = ed["type"][e]
            a, b = int(ed["pre_global_comp_index"][e]), int(ed["post_global_comp_index"][e])
            if t == "IonotropicSynapse":
                G = ed["IonotropicSynapse_gS"][e] * st["IonotropicSynapse_s"][e]
                E = ed["IonotropicSynapse_e_syn"][e]
                gabs[b] += G; inj[b] += G * E
                icur[e] = G * (v[b] - E)
            elif t == "TestSynapse":
                G = ed["TestSynapse_gC"][e] * st["TestSynapse_c"][e]
                gabs[b] += G
                icur[e] = G * v[b]
            else:
                f = lambda vp: -ed["TanhRateSynapse_gS"][e] * np.tanh((vp - ed["TanhRateSynapse_x_offset"][e]) * ed["TanhRateSynapse_slope"][e])
                I0 = f(v[a])
                icur[e] = I0
                if variant == "post_only":
                    inj[b] -= I0
                else:
                    sl = (f(v[a] + 1e-3) - I0) / 1e-3
                    gabs[b] += sl; inj[b] += sl * v[b] - I0
        return gabs, inj, icur

    def sample(cst, icur):
        out = []
        for s, i in model["recordings"]:
            if s in st:
                out.append(st[s][i])
            elif s in cst:
                out.append(cst[s][i])
            elif s.startswith("i_") and s[2:] in SYN_STATES:
                out.append(icur.get(i, np.nan))
            else:
                out.append(np.nan)
        return out

    # initial currents (jaxley computes them in get_all_states)
    _, _, cst = membrane(st["v"])
    _, _, icur = syn_currents(st["v"])
    rec = [sample(cst, icur)]
    ext = {k: np.asarray(v, dtype=float) for k, v in (model.get("externals") or {}).items()}
    einds = {k: [int(i) for i in v] for k, v in (model.get("external_inds") or {}).items()}
    for k in range(nsteps):
        v = st["v"]
        inj = np.zeros(n)
        if "i" in ext:
            for j, c in enumerate(einds["i"]):
                inj[c] += ext["i"][k, j]
        # (2) gates at old voltage
        for cls, p, spec, present in chans:
            P = {q.format(p=p): nd[q.format(p=p)] for q in spec["params"]}
            for g in spec["gates"]:
                if cls in ("Km", "CaT"):
                    inf, tau = spec["fn"](g, v, P, p)
                else:
                    inf, tau = spec["fn"](g, v, P)
                key = f"{p}_{g}"
                new = inf + (st[key] - inf) * np.exp(-dt / tau)
                st[key] = np.where(present, new, st[key])
        # (3) membrane currents at new gates
        G, K0, cst = membrane(v)
        # (4) synaptic states from old pre voltage
        for e in range(ne):
            t = ed["type"][e]
            if t in ("IonotropicSynapse", "TestSynapse"):
                a = int(ed["pre_global_comp_index"][e])
                km = ed["IonotropicSynapse_k_minus"][e] if t == "IonotropicSynapse" else 1.0 / 40.0
                sinf = 1.0 / (1.0 + np.exp((-35.0 - v[a]) / 10.0))
                tau = (1.0 - sinf) / km
                key = SYN_STATES[t]
                st[key][e] = sinf + (st[key][e] - sinf) * np.exp(-dt / tau)
        # (5) synaptic currents
        gabs, sinj, icur = syn_currents(v)
        # (6) state clamps
        for key, arr in ext.items():
            if key not in ("i", "v"):
                for j, c in enumerate(einds[key]):
                    st[key][c] = arr[k, j]
        # (7) voltage: membrane constant term K0 [mA/cm2] -> nA: K0*area*1e-2*1e... (S/cm2*mV = mA/cm2; *area um2*1e-8 cm2 = mA -> 1e6 nA)
        inj_tot = inj + sinj - K0 * area * 1e-2
        st["v"] = cable.step(cells, nd["radius"], nd["length"], nd["axial_resistivity"], nd["capacitance"], v, dt, scheme,
                             G, np.zeros(n), inj_tot, gabs, None)
        # (8) voltage clamp
        if "v" in ext:
            for j, c in enumerate(einds["v"]):
                st["v"][c] = ext["v"][k, j]
        rec.append(sample(cst, icur))
    return np.asarray(rec, dtype=float).T
