"""R2 - published kinetics in mpmath (50 digits), written from the papers, not from jaxley.

HH: Hodgkin & Huxley 1952 at 6.3 C in the convention of NEURON's hh.mod (v in mV, rest ~ -65).
Pospischil et al., Biol Cybern 2008 (Na, K, I_M, I_L, I_T, leak).  Abbott & Marder 1998 synapse.
Every function takes/returns mpf; `rates(mech, gate, v, **p)` -> dict with alpha/beta (if the
gate is in alpha/beta form), inf and tau.  Removable singularities are taken as limits.
"""
import mpmath as mp

mp.mp.dps = 50
M = mp.mpf


def _xexpm1(x):
    """x / (exp(x) - 1) with the limit 1 at x = 0."""
    x = M(x)
    if x == 0:
        return M(1)
    return x / mp.expm1(x)


def vtrap(x, y):
    """NEURON's vtrap: x / (exp(x/y) - 1) = y * (x/y)/(exp(x/y)-1)."""
    return M(y) * _xexpm1(M(x) / M(y))


def _ab(a, b):
    return {"alpha": a, "beta": b, "inf": a / (a + b), "tau": 1 / (a + b)}


# --------------------------------------------------------------------------- HH
def hh_m(v):
    v = M(v)
    return _ab(M("0.1") * vtrap(-(v + 40), 10), 4 * mp.exp(-(v + 65) / 18))


def hh_h(v):
    v = M(v)
    return _ab(M("0.07") * mp.exp(-(v + 65) / 20), 1 / (mp.exp(-(v + 35) / 10) + 1))


def hh_n(v):
    v = M(v)
    return _ab(M("0.01") * vtrap(-(v + 55), 10), M("0.125") * mp.exp(-(v + 65) / 80))


def hh_current(v, m, h, n, gNa, gK, gLeak, eNa, eK, eLeak):
    v, m, h, n = M(v), M(m), M(h), M(n)
    return M(gNa) * m**3 * h * (v - M(eNa)) + M(gK) * n**4 * (v - M(eK)) + M(gLeak) * (v - M(eLeak))


# ------------------------------------------------------------------- Pospischil
def na_m(v, vt):
    v, vt = M(v), M(vt)
    a = M("0.32") * 4 * _xexpm1(-(v - vt - 13) / 4)
    b = M("0.28") * 5 * _xexpm1((v - vt - 40) / 5)
    return _ab(a, b)


def na_h(v, vt):
    v, vt = M(v), M(vt)
    return _ab(M("0.128") * mp.exp(-(v - vt - 17) / 18), 4 / (1 + mp.exp(-(v - vt - 40) / 5)))


def k_n(v, vt):
    v, vt = M(v), M(vt)
    return _ab(M("0.032") * 5 * _xexpm1(-(v - vt - 15) / 5), M("0.5") * mp.exp(-(v - vt - 10) / 40))


def km_p(v, taumax):
    v = M(v)
    inf = 1 / (1 + mp.exp(-(v + 35) / 10))
    tau = M(taumax) / (M("3.3") * mp.exp((v + 35) / 20) + mp.exp(-(v + 35) / 20))
    return {"inf": inf, "tau": tau}


def cal_q(v):
    v = M(v)
    return _ab(M("0.055") * M("3.8") * _xexpm1((-27 - v) / M("3.8")), M("0.94") * mp.exp((-75 - v) / 17))


def cal_r(v):
    v = M(v)
    return _ab(M("0.000457") * mp.exp((-13 - v) / 50), M("0.0065") / (mp.exp((-15 - v) / 28) + 1))


def cat_u(v, vx):
    v, vx = M(v), M(vx)
    inf = 1 / (1 + mp.exp((v + vx + 81) / 4))
    tau = (M("30.8") + (M("211.4") + mp.exp((v + vx + M("113.2")) / 5))) / (M("3.7") * (1 + mp.exp((v + vx + 84) / M("3.2"))))
    return {"inf": inf, "tau": tau}


def cat_sinf(v, vx):
    return 1 / (1 + mp.exp(-(M(v) + M(vx) + 57) / M("6.2")))


# --------------------------------------------------------------------- synapses
def iono_s(v_pre, k_minus, v_th=-35, delta=10):
    inf = 1 / (1 + mp.exp((M(v_th) - M(v_pre)) / M(delta)))
    return {"inf": inf, "tau": (1 - inf) / M(k_minus)}


# --------------------------------------------------- mechanism table (the spec)
# name -> dict(defaults_params, defaults_states, gates{state: fn(v, params)->rates}, current fn, current_name)
def _p(params, prefix, key):
    return params[f"{prefix}_{key}"]


MECH = {
    "HH": {
        "params": {"{p}_gNa": 0.12, "{p}_gK": 0.036, "{p}_gLeak": 0.0003, "{p}_eNa": 50.0, "{p}_eK": -77.0, "{p}_eLeak": -54.3},
        "states": {"{p}_m": 0.2, "{p}_h": 0.2, "{p}_n": 0.2},
        "gates": {"{p}_m": lambda v, P, p: hh_m(v), "{p}_h": lambda v, P, p: hh_h(v), "{p}_n": lambda v, P, p: hh_n(v)},
        "current": lambda v, S, P, p: hh_current(v, S[f"{p}_m"], S[f"{p}_h"], S[f"{p}_n"], P[f"{p}_gNa"], P[f"{p}_gK"],
                                                 P[f"{p}_gLeak"], P[f"{p}_eNa"], P[f"{p}_eK"], P[f"{p}_eLeak"]),
        "current_name": "i_HH",
    },
    "Leak": {
        "params": {"{p}_gLeak": 1e-4, "{p}_eLeak": -70.0}, "states": {}, "gates": {},
        "current": lambda v, S, P, p: M(P[f"{p}_gLeak"]) * (M(v) - M(P[f"{p}_eLeak"])),
        "current_name": "i_{p}",
    },
    "Na": {
        "params": {"{p}_gNa": 50e-3, "eNa": 50.0, "vt": -60.0}, "states": {"{p}_m": 0.2, "{p}_h": 0.2},
        "gates": {"{p}_m": lambda v, P, p: na_m(v, P["vt"]), "{p}_h": lambda v, P, p: na_h(v, P["vt"])},
        "current": lambda v, S, P, p: M(P[f"{p}_gNa"]) * M(S[f"{p}_m"]) ** 3 * M(S[f"{p}_h"]) * (M(v) - M(P["eNa"])),
        "current_name": "i_Na",
    },
    "K": {
        "params": {"{p}_gK": 5e-3, "eK": -90.0, "vt": -60.0}, "states": {"{p}_n": 0.2},
        "gates": {"{p}_n": lambda v, P, p: k_n(v, P["vt"])},
        "current": lambda v, S, P, p: M(P[f"{p}_gK"]) * M(S[f"{p}_n"]) ** 4 * (M(v) - M(P["eK"])),
        "current_name": "i_K",
    },
    "Km": {
        "params": {"{p}_gKm": 0.004e-3, "{p}_taumax": 4000.0, "eK": -90.0}, "states": {"{p}_p": 0.2},
        "gates": {"{p}_p": lambda v, P, p: km_p(v, P[f"{p}_taumax"])},
        "current": lambda v, S, P, p: M(P[f"{p}_gKm"]) * M(S[f"{p}_p"]) * (M(v) - M(P["eK"])),
        "current_name": "i_K",
    },
    "CaL": {
        "params": {"{p}_gCaL": 0.1e-3, "eCa": 120.0}, "states": {"{p}_q": 0.2, "{p}_r": 0.2},
        "gates": {"{p}_q": lambda v, P, p: cal_q(v), "{p}_r": lambda v, P, p: cal_r(v)},
        "current": lambda v, S, P, p: M(P[f"{p}_gCaL"]) * M(S[f"{p}_q"]) ** 2 * M(S[f"{p}_r"]) * (M(v) - M(P["eCa"])),
        "current_name": "i_Ca",
    },
    "CaT": {
        "params": {"{p}_gCaT": 0.4e-4, "{p}_vx": 2.0, "eCa": 120.0}, "states": {"{p}_u": 0.2},
        "gates": {"{p}_u": lambda v, P, p: cat_u(v, P[f"{p}_vx"])},
        "current": lambda v, S, P, p: M(P[f"{p}_gCaT"]) * cat_sinf(v, P[f"{p}_vx"]) ** 2 * M(S[f"{p}_u"]) * (M(v) - M(P["eCa"])),
        "current_name": "i_Ca",
    },
}

SYN = {
    "IonotropicSynapse": {
        "params": {"{p}_gS": 1e-4, "{p}_e_syn": 0.0, "{p}_k_minus": 0.025}, "states": {"{p}_s": 0.2},
        "gates": {"{p}_s": lambda vpre, P, p: iono_s(vpre, P[f"{p}_k_minus"])},
        "current": lambda vpre, vpost, S, P, p: M(P[f"{p}_gS"]) * M(S[f"{p}_s"]) * (M(vpost) - M(P[f"{p}_e_syn"])),
    },
    "TanhRateSynapse": {
        "params": {"{p}_gS": 1e-4, "{p}_x_offset": -70.0, "{p}_slope": 1.0}, "states": {}, "gates": {},
        "current": lambda vpre, vpost, S, P, p: -M(P[f"{p}_gS"]) * mp.tanh((M(vpre) - M(P[f"{p}_x_offset"])) * M(P[f"{p}_slope"])),
    },
    "TestSynapse": {  # no publication: same kinetics as the ionotropic synapse with k_minus = 1/40, e_syn = 0
        "params": {"{p}_gC": 1e-4}, "states": {"{p}_c": 0.2},
        "gates": {"{p}_c": lambda vpre, P, p: iono_s(vpre, M(1) / 40)},
        "current": lambda vpre, vpost, S, P, p: M(P[f"{p}_gC"]) * M(S[f"{p}_c"]) * M(vpost),
    },
}


def fmt(table, prefix):
    return {k.format(p=prefix): v for k, v in table.items()}


SINGULAR = {  # voltages at which a rate expression is 0/0 (offsets relative to vt where applicable)
    "HH": [-40.0, -55.0],
    "Na": ["vt+13", "vt+40"],
    "K": ["vt+15"],
    "CaL": [-27.0],
}


# ------------------------------------------------------------------ self-tests
def selftest_hh_against_neuron():
    """R2-HH vs NEURON's compiled hh mechanism (rates_hh) on 2000 voltages."""
    try:
        from neuron import h
    except Exception as e:  # pragma: no cover
        raise AssertionError(f"NEURON not importable: {e!r}")
    import numpy as np
    soma = h.Section(name="soma")
    soma.insert("hh")
    h.celsius = 6.3
    seg = soma(0.5)
    h.setdata_hh(seg)
    h.usetable_hh = 0  # evaluate the rate expressions, not the interpolation table
    rng = np.random.default_rng(0)
    worst = 0.0
    for v in list(rng.uniform(-150, 100, 2000)) + [-40.0, -55.0, -65.0]:
        h.rates_hh(float(v))
        for fn, inf, tau in ((hh_m, seg.hh.minf, seg.hh.mtau), (hh_h, seg.hh.hinf, seg.hh.htau), (hh_n, seg.hh.ninf, seg.hh.ntau)):
            r = fn(float(v))
            worst = max(worst, abs(float(r["inf"]) - inf) / max(abs(inf), 1e-300), abs(float(r["tau"]) - tau) / tau)
    # NEURON's vtrap switches to a Taylor branch for |x/y| < 1e-6 (relative error ~1e-7 there at most)
    assert worst < 1e-6, worst
    assert (seg.hh.gnabar, seg.hh.gkbar, seg.hh.gl, seg.hh.el, soma.ena, soma.ek) == (0.12, 0.036, 0.0003, -54.3, 50.0, -77.0)


def selftest_limits():
    assert abs(hh_m(-40)["alpha"] - 1) < M("1e-40")  # 0.1 * 10
    assert abs(hh_n(-55)["alpha"] - M("0.1")) < M("1e-40")
    assert abs(na_m(-47, -60)["alpha"] - M("1.28")) < M("1e-40")  # 0.32*4
    assert abs(cal_q(-27)["alpha"] - M("0.055") * M("3.8")) < M("1e-40")
    # continuity across the removable singularities
    for f, v0 in ((hh_m, -40), (hh_n, -55), (cal_q, -27)):
        a0, a1 = f(v0)["alpha"], f(M(v0) + M("1e-20"))["alpha"]
        assert abs(a0 - a1) < M("1e-18"), (f.__name__, a0, a1)
