"""R1 - dense cable reference in absolute units (nA, mV, uS, nF, ms).

Written from the cable equation, not from jaxley's code: compartments are RC nodes at their
centres, neighbouring centres are joined by the series resistance of two half-cylinders, every
branch that has children owns one zero-capacitance Kirchhoff node at its distal end, joined to
its own last compartment and to the first compartment of each child.  The resulting system is
symmetric (jaxley's is per-area and row-scaled), so agreement is not by construction.
"""
import numpy as np

PI = np.pi


def geometry(radius, length, ra, cm):
    radius, length, ra, cm = (np.asarray(a, dtype=np.float64) for a in (radius, length, ra, cm))
    area = 2.0 * PI * radius * length  # um^2
    cap = cm * area * 1e-5  # nF
    r_half = ra * (length / 2.0) / (PI * radius**2) * 1e4  # Ohm
    g_half = 1e6 / r_half  # uS
    return area, cap, g_half


def layout(cells):
    """cells: list of {'parents': [...], 'ncomp': [...]} -> per-branch (start, n), list of
    (branch-with-children, [children]) in global branch indices."""
    starts, ncomps, kids = [], [], []
    off_b, off_c = 0, 0
    for c in cells:
        par = list(c["parents"])
        nc = list(c["ncomp"])
        for b, n in enumerate(nc):
            starts.append(off_c)
            ncomps.append(int(n))
            off_c += int(n)
        ch = {}
        for b, p in enumerate(par):
            if p >= 0:
                ch.setdefault(off_b + int(p), []).append(off_b + b)
        kids.extend(sorted(ch.items()))
        off_b += len(par)
    return np.asarray(starts), np.asarray(ncomps), kids, off_c


def laplacian(cells, g_half):
    starts, ncomps, kids, n = layout(cells)
    nb = len(kids)
    L = np.zeros((n + nb, n + nb))

    def link(i, j, g):
        L[i, i] += g
        L[j, j] += g
        L[i, j] -= g
        L[j, i] -= g

    for s, k in zip(starts, ncomps):
        for i in range(s, s + k - 1):
            link(i, i + 1, 1.0 / (1.0 / g_half[i] + 1.0 / g_half[i + 1]))
    for q, (b, ch) in enumerate(kids):
        bp = n + q
        link(starts[b] + ncomps[b] - 1, bp, g_half[starts[b] + ncomps[b] - 1])
        for c in ch:
            link(starts[c], bp, g_half[starts[c]])
    return L, n, nb


def _system(L, n, nb, cap, gmem, emem, inj, v, dt):
    capx = np.concatenate([cap, np.zeros(nb)])
    gx = np.concatenate([gmem, np.zeros(nb)])
    A = L + np.diag(capx / dt + gx)
    b = np.concatenate([cap / dt * v + gmem * emem + inj, np.zeros(nb)])
    return A, b


def step(cells, radius, length, ra, cm, v, dt, scheme="bwd_euler", gmem=None, emem=None, inj=None,
         g_abs=None, ge_abs=None):
    """One voltage step of the scheme. gmem in S/cm^2 (density), emem mV, inj nA per comp.
    g_abs (uS) / ge_abs (uS*mV) add absolute (point-process) conductances per compartment: I = g_abs*v - ge_abs."""
    area, cap, g_half = geometry(radius, length, ra, cm)
    L, n, nb = laplacian(cells, g_half)
    v = np.asarray(v, dtype=np.float64)
    G = np.zeros(n) if gmem is None else np.asarray(gmem, dtype=np.float64) * area * 1e-2  # uS
    E = np.zeros(n) if emem is None else np.asarray(emem, dtype=np.float64)
    I = np.zeros(n) if inj is None else np.asarray(inj, dtype=np.float64)
    if g_abs is not None:
        # fold the point conductances into (G, G*E + I): G_tot*v - (G*E + ge_abs)
        ga = np.asarray(g_abs, dtype=np.float64)
        I = I + G * E + (0.0 if ge_abs is None else np.asarray(ge_abs, dtype=np.float64))
        G = G + ga
        E = np.zeros(n)
    if scheme == "bwd_euler":
        A, b = _system(L, n, nb, cap, G, E, I, v, dt)
        return np.linalg.solve(A, b)[:n]
    if scheme == "crank_nicolson":
        A, b = _system(L, n, nb, cap, G, E, I, v, dt / 2.0)
        return 2.0 * np.linalg.solve(A, b)[:n] - v
    if scheme == "fwd_euler":
        # branch-point voltages eliminated by Kirchhoff at the old voltages
        if nb:
            Lcc, Lcb, Lbb = L[:n, :n], L[:n, n:], L[n:, n:]
            vb = np.linalg.solve(Lbb, -Lcb.T @ v)
            ax = Lcc @ v + Lcb @ vb
        else:
            ax = L @ v
        return v + dt / cap * (-ax - G * (v - E) + I)
    raise ValueError(scheme)


def backward_error(cells, radius, length, ra, cm, v_old, v_new, dt, scheme, gmem=None, emem=None, inj=None):
    """Componentwise (Oettli-Prager) backward error of a candidate new voltage in R1's system,
    forward error against R1's own solution, and cond(A). For CN the half-step value
    h=(v+v')/2 is judged against the half-step system; fwd_euler has no system: forward only."""
    area, cap, g_half = geometry(radius, length, ra, cm)
    L, n, nb = laplacian(cells, g_half)
    v_old = np.asarray(v_old, dtype=np.float64)
    v_new = np.asarray(v_new, dtype=np.float64)
    G = np.zeros(n) if gmem is None else np.asarray(gmem, dtype=np.float64) * area * 1e-2
    E = np.zeros(n) if emem is None else np.asarray(emem, dtype=np.float64)
    I = np.zeros(n) if inj is None else np.asarray(inj, dtype=np.float64)
    ref = step(cells, radius, length, ra, cm, v_old, dt, scheme, gmem, emem, inj)
    scale = 1.0 + np.maximum(np.abs(ref), np.abs(v_old))
    fwd = float(np.max(np.abs(v_new - ref) / scale)) if np.all(np.isfinite(v_new)) else float("inf")
    out = {"forward": fwd, "ref": ref}
    if scheme == "fwd_euler":
        out.update(backward=fwd, cond=1.0)
        return out
    h = dt if scheme == "bwd_euler" else dt / 2.0
    x = v_new if scheme == "bwd_euler" else (v_new + v_old) / 2.0
    A, b = _system(L, n, nb, cap, G, E, I, v_old, h)
    if nb:
        Abb, Abc = A[n:, n:], A[n:, :n]
        xb = np.linalg.solve(Abb, -Abc @ x)
        xx = np.concatenate([x, xb])
    else:
        xx = x
    if not np.all(np.isfinite(xx)):
        out.update(backward=float("inf"), cond=float("nan"))
        return out
    res = np.abs(b - A @ xx)[:n]
    den = (np.abs(A) @ np.abs(xx) + np.abs(b))[:n]
    out["backward"] = float(np.max(res / np.where(den > 0, den, 1.0)))
    # condition number of the row/column-equilibrated system
    d = 1.0 / np.sqrt(np.abs(np.diag(A)))
    out["cond"] = float(np.linalg.cond(A * d[:, None] * d[None, :]))
    return out
