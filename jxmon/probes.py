"""Instrumentation attached from outside to the real code.

MechCoverage  - sys.monitoring PY_START counters on the code objects of the functions named
                in a property's anchors.mechanism (how often the workload entered them).
wrap_everywhere - re-bind a function in every loaded jaxley module namespace holding it
                (from-imports bypass a re-bound attribute otherwise); counts evaluations.
"""
import importlib
import sys


def _resolve(spec):
    """'pkg.mod:Class.func' -> function object or None."""
    modname, _, path = spec.partition(":")
    try:
        obj = importlib.import_module(modname)
        for part in path.split("."):
            obj = obj.__dict__[part] if isinstance(obj, type) and part in obj.__dict__ else getattr(obj, part)
        if isinstance(obj, (staticmethod, classmethod)):
            obj = obj.__func__
        while hasattr(obj, "__wrapped__"):
            obj = obj.__wrapped__
        # decorators that do not use functools.wraps (jaxley's only_allow_module): the real function is in the closure
        for _ in range(3):
            if getattr(obj, "__name__", "") == "wrapper" and getattr(obj, "__closure__", None):
                inner = [c.cell_contents for c in obj.__closure__ if callable(getattr(c, "cell_contents", None))
                         and hasattr(c.cell_contents, "__code__")]
                if inner:
                    obj = inner[0]
                    continue
            break
        return obj
    except Exception:
        return None


class MechCoverage:
    TOOL = 3  # sys.monitoring tool id (free slot)

    def __init__(self, specs):
        self.specs = list(specs)
        self.counts = {}
        self.absent = []
        self._codes = {}
        self._on = False

    def start(self):
        if not self.specs or not hasattr(sys, "monitoring"):
            return
        mon = sys.monitoring
        try:
            mon.use_tool_id(self.TOOL, "jxmon-mech")
        except ValueError:
            return
        for s in self.specs:
            fn = _resolve(s)
            code = getattr(fn, "__code__", None)
            if code is None:
                self.absent.append(s)
                continue
            self._codes[code] = s
            self.counts[s] = 0

        def on_start(code, offset):
            s = self._codes.get(code)
            if s is not None:
                self.counts[s] += 1

        mon.register_callback(self.TOOL, mon.events.PY_START, on_start)
        for code in self._codes:
            mon.set_local_events(self.TOOL, code, mon.events.PY_START)
        self._on = True

    def stop(self):
        if self._on:
            mon = sys.monitoring
            for code in self._codes:
                mon.set_local_events(self.TOOL, code, 0)
            mon.register_callback(self.TOOL, mon.events.PY_START, None)
            mon.free_tool_id(self.TOOL)
            self._on = False
        return {"entered": self.counts, "absent": self.absent}


class Wrapped:
    """Handle returned by wrap_everywhere; .calls counts evaluations, .restore() undoes."""

    def __init__(self):
        self.calls = 0
        self._sites = []

    def restore(self):
        for ns, name, orig in self._sites:
            ns[name] = orig
        self._sites = []


def wrap_everywhere(func, make_wrapper, prefix="jaxley"):
    """Replace `func` by make_wrapper(func, handle) in every loaded module under `prefix`
    whose namespace binds it (module attribute or from-import)."""
    h = Wrapped()
    w = make_wrapper(func, h)
    for mname, m in list(sys.modules.items()):
        if m is None or not (mname == prefix or mname.startswith(prefix + ".")):
            continue
        ns = getattr(m, "__dict__", None)
        if not ns:
            continue
        for name, val in list(ns.items()):
            if val is func:
                h._sites.append((ns, name, func))
                ns[name] = w
    return h
