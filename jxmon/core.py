"""Event recording for monitors. A property module's run_case(case, rec) reports what its
monitors observed through a Rec; the worker serialises it, the runner aggregates."""
import math
import traceback

MAX_VIOL_PER_CASE = 6


def _short(x, n=300):
    s = str(x)
    return s if len(s) <= n else s[: n - 3] + "..."


def jsonable(x):
    """Best-effort conversion of numpy/jax values to JSON-serialisable python."""
    try:
        import numpy as np
    except Exception:  # pragma: no cover
        np = None
    if x is None or isinstance(x, (bool, int, str)):
        return x
    if isinstance(x, float):
        if math.isnan(x):
            return "nan"
        if math.isinf(x):
            return "inf" if x > 0 else "-inf"
        return x
    if isinstance(x, dict):
        return {str(k): jsonable(v) for k, v in x.items()}
    if isinstance(x, (list, tuple, set)):
        return [jsonable(v) for v in x]
    if np is not None:
        if isinstance(x, np.generic):
            return jsonable(x.item())
        if hasattr(x, "shape") and hasattr(x, "dtype"):
            a = np.asarray(x)
            if a.size > 64:
                return {"shape": list(a.shape), "head": jsonable(a.ravel()[:16].tolist())}
            return jsonable(a.tolist())
    return _short(repr(x))


class Refused(Exception):
    """Raised by Rec.call when the API under test raised; carries the original."""

    def __init__(self, exc):
        super().__init__(repr(exc))
        self.exc = exc


class Rec:
    def __init__(self):
        self.counts = {}
        self.violations = []
        self.refusals = {}
        self.sigs = []
        self.info = {}
        self.mech = {}

    def _c(self, monitor, verdict, n=1):
        d = self.counts.setdefault(monitor, {"held": 0, "violated": 0, "refused": 0, "skipped": 0})
        d[verdict] += n

    def held(self, monitor, n=1):
        self._c(monitor, "held", n)

    def skipped(self, monitor, why="", n=1):
        self._c(monitor, "skipped", n)
        if why:
            k = f"skip[{monitor}]: {why}"
            self.refusals[k] = self.refusals.get(k, 0) + n

    def violated(self, monitor, **detail):
        self._c(monitor, "violated")
        if len(self.violations) < MAX_VIOL_PER_CASE:
            self.violations.append({"monitor": monitor, "detail": jsonable(detail)})

    def refused(self, monitor, exc, where=""):
        self._c(monitor, "refused")
        key = f"{type(exc).__name__}: {_short(exc, 120)}" + (f" @{where}" if where else "")
        self.refusals[key] = self.refusals.get(key, 0) + 1

    def check(self, monitor, ok, **detail):
        """held if ok else violated (detail evaluated by caller)."""
        if ok:
            self.held(monitor)
        else:
            self.violated(monitor, **detail)
        return bool(ok)

    def sig(self, s, nontrivial=True):
        self.sigs.append([str(s), bool(nontrivial)])

    def call(self, monitor, fn, *a, where="", **k):
        """Call the API under test. An exception is a *refusal*: recorded, then re-raised
        as Refused so the case can stop or continue as it sees fit."""
        try:
            return fn(*a, **k)
        except Refused:
            raise
        except Exception as e:  # noqa: BLE001 - the API may raise anything
            self.refused(monitor, e, where or getattr(fn, "__name__", ""))
            raise Refused(e) from e

    def to_json(self):
        return {
            "counts": self.counts,
            "violations": self.violations,
            "refusals": self.refusals,
            "sigs": self.sigs,
            "info": jsonable(self.info),
            "mech": self.mech,
        }


def fmt_exc():
    return traceback.format_exc(limit=12)
