"""Process environment for jxmon workers: x64, CPU, single-threaded XLA, import of the
jaxley under test from JXMON_REPO (default /repo), third-party helpers from ./.deps."""
import hashlib
import os
import subprocess
import sys

ROOT = os.path.dirname(os.path.dirname(os.path.abspath(__file__)))
REPO = os.path.realpath(os.environ.get("JXMON_REPO", "/repo"))
GUARD = "JAXLEY_VERIF"

_done = False


def worker_env():
    """Environment variables for worker subprocesses (set before python starts)."""
    env = dict(os.environ)
    env.setdefault("JAX_PLATFORMS", "cpu")
    env["PYTHONHASHSEED"] = "0"
    env["OMP_NUM_THREADS"] = "1"
    env["OPENBLAS_NUM_THREADS"] = "1"
    env["MKL_NUM_THREADS"] = "1"
    env["XLA_FLAGS"] = (
        env.get("XLA_FLAGS", "")
        + " --xla_cpu_multi_thread_eigen=false intra_op_parallelism_threads=1"
        + " --xla_force_host_platform_device_count=1"
    )
    env["TF_CPP_MIN_LOG_LEVEL"] = "3"
    env[GUARD] = "1"
    env["MPLBACKEND"] = "Agg"
    env["PYTHONPATH"] = ROOT + os.pathsep + env.get("PYTHONPATH", "")
    env["PYTHONWARNINGS"] = "ignore"
    return env


def setup():
    """Import jaxley from REPO with x64 enabled. Idempotent."""
    global _done
    if _done:
        return
    os.environ.setdefault("JAX_PLATFORMS", "cpu")
    os.environ.setdefault("MPLBACKEND", "Agg")
    if REPO not in sys.path:
        sys.path.insert(0, REPO)
    deps = os.path.join(ROOT, ".deps")
    if os.path.isdir(deps) and deps not in sys.path:
        sys.path.append(deps)
    import warnings

    warnings.filterwarnings("ignore")
    import jax

    jax.config.update("jax_enable_x64", True)
    jax.config.update("jax_platform_name", "cpu")
    import jaxley

    jf = os.path.realpath(jaxley.__file__)
    assert jf.startswith(REPO + os.sep), f"jaxley imported from {jf}, expected under {REPO}"
    _done = True


def tree_fingerprint():
    """git HEAD + hash of the working-tree diff of the repo under test."""
    try:
        head = subprocess.run(
            ["git", "-C", REPO, "rev-parse", "--short", "HEAD"],
            capture_output=True, text=True, timeout=20,
        ).stdout.strip()
        diff = subprocess.run(
            ["git", "-C", REPO, "diff", "HEAD", "--", "jaxley"],
            capture_output=True, timeout=20,
        ).stdout
        return {"repo": REPO, "head": head,
                "diff_sha1": hashlib.sha1(diff).hexdigest()[:12] if diff else "clean"}
    except Exception as e:  # pragma: no cover
        return {"repo": REPO, "head": "?", "diff_sha1": "?", "error": str(e)}
