"""Construction of real jaxley modules from JSON specs (worker side; imports jaxley)."""
import numpy as np


def build_structure(struct):
    """struct: {'kind', 'cells': [{'parents','ncomp'}]} -> jaxley module with default params."""
    import jaxley as jx

    kind = struct["kind"]
    if kind == "comp":
        return jx.Compartment()
    if kind == "branch":
        n = struct["cells"][0]["ncomp"][0]
        return jx.Branch([jx.Compartment() for _ in range(n)])
    cells = []
    comp = jx.Compartment()
    cache = {}

    def branch(n):
        if n not in cache:
            cache[n] = jx.Branch([comp for _ in range(n)])
        return cache[n]

    for c in struct["cells"]:
        branches = [branch(int(n)) for n in c["ncomp"]]
        cells.append(jx.Cell(branches, parents=[int(p) for p in c["parents"]]))
    if kind == "cell":
        return cells[0]
    return jx.Network(cells)


def set_passive(m, params, leak=True):
    """Per-compartment radius/length/ra/cm/v and a Leak channel with per-compartment g, E."""
    from jaxley.channels import Leak

    m.set("radius", np.asarray(params["radius"]))
    m.set("length", np.asarray(params["length"]))
    m.set("axial_resistivity", np.asarray(params["ra"]))
    m.set("capacitance", np.asarray(params["cm"]))
    m.set("v", np.asarray(params["v"]))
    if leak:
        m.insert(Leak())
        m.set("Leak_gLeak", np.asarray(params["g"]))
        m.set("Leak_eLeak", np.asarray(params["e"]))
    return m


def record_all_v(m):
    m.delete_recordings()
    m.record("v", verbose=False)


def one_step(m, stim, dt, solver, backend):
    """integrate one step with a one-sample stimulus on every compartment -> (v0, v1)."""
    import jaxley as jx
    import jax.numpy as jnp

    m.delete_stimuli()
    m.stimulate(jnp.asarray(np.asarray(stim, dtype=np.float64)[:, None]), verbose=False)
    out = np.asarray(jx.integrate(m, delta_t=dt, solver=solver, voltage_solver=backend))
    m.delete_stimuli()
    return out[:, 0], out[:, 1]
