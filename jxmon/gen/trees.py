"""Seeded generators of branch trees, compartment counts and passive parameters (numpy only)."""
import numpy as np


def rng_for(seed, pid, k=0):
    return np.random.default_rng([int(seed), int(pid), int(k)])


def random_parents(rng, nb, kind=None):
    """Topologically labelled parent vector (parents[i] < i, parents[0] = -1)."""
    kind = kind or rng.choice(["recursive", "chain", "star", "binary", "caterpillar", "recursive"])
    if nb == 1:
        return [-1]
    if kind == "chain":
        return [-1] + list(range(nb - 1))
    if kind == "star":
        return [-1] + [0] * (nb - 1)
    if kind == "binary":
        return [-1] + [(i - 1) // 2 for i in range(1, nb)]
    if kind == "caterpillar":
        par, spine = [-1], 0
        for i in range(1, nb):
            par.append(spine)
            if rng.random() < 0.5:
                spine = i
        return par
    return [-1] + [int(rng.integers(0, i)) for i in range(1, nb)]


def relabel(parents, perm):
    """Relabel branches: new label of old branch i is perm[i]; root must stay 0."""
    nb = len(parents)
    new = [None] * nb
    for i, p in enumerate(parents):
        new[perm[i]] = -1 if p < 0 else int(perm[p])
    return new


def shuffle_topological(rng, parents):
    """Random relabelling that keeps parents[i] < i (random topological order, root first)."""
    nb = len(parents)
    children = {i: [] for i in range(nb)}
    for i, p in enumerate(parents):
        if p >= 0:
            children[p].append(i)
    order, frontier = [], [0]
    while frontier:
        k = int(rng.integers(0, len(frontier)))
        b = frontier.pop(k)
        order.append(b)
        frontier.extend(children[b])
    perm = [0] * nb
    for new, old in enumerate(order):
        perm[old] = new
    return relabel(parents, perm), perm


def shuffle_nontopological(rng, parents):
    """Random relabelling with root fixed at 0 and at least one child listed before its parent
    (returns None when the tree is too small to allow it)."""
    nb = len(parents)
    if nb < 3:
        return None, None
    for _ in range(20):
        perm = [0] + list(1 + rng.permutation(nb - 1))
        new = relabel(parents, perm)
        if any(p > i for i, p in enumerate(new)):
            return new, [int(x) for x in perm]
    return None, None


def levels(parents):
    lv = [0] * len(parents)
    for _ in range(len(parents)):
        for i, p in enumerate(parents):
            if p >= 0:
                lv[i] = lv[p] + 1
    return lv


def has_children(parents):
    s = set(p for p in parents if p >= 0)
    return [i in s for i in range(len(parents))]


def random_ncomp(rng, parents, pattern=None, nmax=5):
    nb = len(parents)
    pattern = pattern or rng.choice(["equal", "random", "parent_short", "leaf_long", "random", "ones"])
    if pattern == "equal":
        return [int(rng.integers(1, nmax + 1))] * nb, pattern
    if pattern == "ones":
        return [1] * nb, pattern
    nc = [int(rng.integers(1, nmax + 1)) for _ in range(nb)]
    lv, hc = levels(parents), has_children(parents)
    if pattern == "parent_short":
        # a branch that has children gets fewer compartments than some branch of its level
        for i in range(nb):
            if hc[i]:
                nc[i] = int(rng.integers(1, 3))
        for i in range(nb):
            same = [j for j in range(nb) if lv[j] == lv[i] and j != i]
            if hc[i] and same:
                j = same[int(rng.integers(0, len(same)))]
                nc[j] = max(nc[j], nc[i] + int(rng.integers(1, 3)))
    elif pattern == "leaf_long":
        leaves = [i for i in range(nb) if not hc[i]]
        i = leaves[int(rng.integers(0, len(leaves)))]
        nc[i] = nmax + 1
    return nc, pattern


def f1_precondition(parents, ncomp):
    """Structural precondition of finding F1: some branch that has children has fewer
    compartments than the longest branch of its level."""
    lv, hc = levels(parents), has_children(parents)
    for i in range(len(parents)):
        if hc[i] and ncomp[i] < max(ncomp[j] for j in range(len(parents)) if lv[j] == lv[i]):
            return True
    return False


def logu(rng, lo, hi, n=None):
    return np.exp(rng.uniform(np.log(lo), np.log(hi), n))


def passive_params(rng, n, hetero=True):
    if hetero:
        p = {
            "radius": logu(rng, 0.1, 20.0, n),
            "length": logu(rng, 0.5, 200.0, n),
            "ra": logu(rng, 10.0, 1e4, n),
            "cm": logu(rng, 0.1, 5.0, n),
            "g": np.where(rng.random(n) < 0.15, 0.0, logu(rng, 1e-6, 1e-2, n)),
            "e": rng.uniform(-100.0, 50.0, n),
            "v": rng.uniform(-100.0, 50.0, n),
        }
    else:
        one = lambda lo, hi: np.full(n, float(logu(rng, lo, hi)))
        p = {"radius": one(0.2, 10), "length": one(1, 100), "ra": one(30, 5000), "cm": one(0.3, 3),
             "g": one(1e-5, 1e-3), "e": np.full(n, float(rng.uniform(-90, -50))),
             "v": rng.uniform(-100.0, 50.0, n)}
    return {k: [float(x) for x in v] for k, v in p.items()}


DT_CORNERS = [1e-4, 0.025, 0.1, 1.0, 10.0, 1e3, 1e6, 1e9]


def random_dt(rng, lo=1e-4, hi=1e9):
    if rng.random() < 0.4:
        return float(DT_CORNERS[int(rng.integers(0, len(DT_CORNERS)))])
    return float(logu(rng, lo, hi))


def canonical_tree(parents):
    """Canonical string of the unlabelled rooted tree (AHU encoding)."""
    nb = len(parents)
    ch = {i: [] for i in range(nb)}
    for i, p in enumerate(parents):
        if p >= 0:
            ch[p].append(i)

    def enc(i):
        return "(" + "".join(sorted(enc(c) for c in ch[i])) + ")"

    import sys
    sys.setrecursionlimit(10000)
    return enc(0)


def random_structure(rng, kind=None, max_branches=10, max_cells=4, nmax=5, nontopo=False):
    """-> dict(kind, cells=[{parents, ncomp}], pattern, labelling)"""
    kind = kind or rng.choice(["comp", "branch", "cell", "cell", "cell", "network", "network"])
    if kind == "comp":
        return {"kind": "comp", "cells": [{"parents": [-1], "ncomp": [1]}], "pattern": "ones", "labelling": "topo"}
    if kind == "branch":
        return {"kind": "branch", "cells": [{"parents": [-1], "ncomp": [int(rng.integers(1, nmax + 3))]}],
                "pattern": "random", "labelling": "topo"}
    ncell = 1 if kind == "cell" else int(rng.integers(1, max_cells + 1))
    cells, pats, lab = [], [], "topo"
    for _ in range(ncell):
        nb = int(rng.integers(1, max_branches + 1))
        par = random_parents(rng, nb)
        par, _ = shuffle_topological(rng, par)
        if nontopo:
            q, _ = shuffle_nontopological(rng, par)
            if q is not None:
                par, lab = q, "nontopo"
        nc, pat = random_ncomp(rng, par, nmax=nmax)
        cells.append({"parents": [int(p) for p in par], "ncomp": [int(x) for x in nc]})
        pats.append(str(pat))
    return {"kind": kind, "cells": cells, "pattern": "+".join(pats), "labelling": lab}


def point_network(rng, mixed=False):
    """Networks of unbranched cells: point neurons (one compartment) and single-branch cells of equal or different
    size; `mixed` puts a branched cell first and point neurons last."""
    ncell = int(rng.integers(2, 6))
    mode = str(rng.choice(["points", "single_branch_equal", "single_branch_unequal"]))
    cells = []
    nb = int(rng.integers(2, 5))
    for i in range(ncell):
        if mode == "points":
            cells.append({"parents": [-1], "ncomp": [1]})
        elif mode == "single_branch_equal":
            cells.append({"parents": [-1], "ncomp": [nb]})
        else:
            cells.append({"parents": [-1], "ncomp": [int(rng.integers(1, 5))]})
    if mixed:
        par = random_parents(rng, int(rng.integers(2, 5)))
        cells[0] = {"parents": [int(p) for p in par], "ncomp": [int(rng.integers(1, 4)) for _ in par]}
        cells[-1] = {"parents": [-1], "ncomp": [1]}
    return {"kind": "network", "cells": cells, "pattern": mode + ("+mixed" if mixed else ""), "labelling": "topo"}


def total_comps(struct):
    return int(sum(sum(c["ncomp"]) for c in struct["cells"]))
