"""Seeded generator of *active* model specs (channels, synapses, stimuli, recordings) as JSON, and
their construction on the worker side.  Used by C05, C06, C07, C09, C12, C18."""
import numpy as np

from jxmon.gen import trees

CHANNELS = ["HH", "Na", "K", "Km", "CaL", "CaT", "Leak"]
SYN = ["IonotropicSynapse", "TestSynapse", "TanhRateSynapse"]


def random_active(rng, kind=None, max_comps=12, channels=("HH", "Leak", "K", "Na", "Km", "CaL"), synapses=True, T=(6, 20),
                  homogeneous_net=False, nstim=(1, 3)):
    kind = kind or str(rng.choice(["cell", "cell", "network", "branch", "network"]))
    for _ in range(50):
        st = trees.random_structure(rng, kind=kind, max_branches=4, max_cells=3, nmax=3)
        if kind == "network" and homogeneous_net:
            c0 = st["cells"][0]
            st["cells"] = [dict(c0) for _ in st["cells"]]
        if trees.total_comps(st) <= max_comps:
            break
    n = trees.total_comps(st)
    ins = [{"ch": "HH", "rows": sorted(set(int(x) for x in rng.choice(n, int(rng.integers(max(1, n // 2), n + 1)), replace=False)))}]
    for ch in channels:
        if ch != "HH" and rng.random() < 0.35:
            ins.append({"ch": ch, "rows": sorted(set(int(x) for x in rng.choice(n, int(rng.integers(1, n + 1)), replace=False)))})
    syn = []
    if kind == "network" and synapses and len(st["cells"]) > 1:
        cell_of = []
        for ci, c in enumerate(st["cells"]):
            cell_of += [ci] * sum(c["ncomp"])
        ntypes = int(rng.integers(1, 4))
        for _ in range(int(rng.integers(1, 6))):
            a, b = int(rng.integers(0, n)), int(rng.integers(0, n))
            syn.append([a, b, int(rng.integers(0, ntypes))])
    Tn = int(rng.integers(T[0], T[1] + 1))
    stim = []
    for _ in range(int(rng.integers(nstim[0], nstim[1] + 1))):
        rows = sorted(set(int(x) for x in rng.choice(n, int(rng.integers(1, min(3, n) + 1)), replace=False)))
        w = rng.uniform(-0.05, 0.3, (len(rows), Tn)) * (rng.random((len(rows), Tn)) < 0.7)
        stim.append({"rows": rows, "w": w.tolist()})
    p = {
        "radius": [float(x) for x in rng.uniform(0.5, 3.0, n)],
        "length": [float(x) for x in rng.uniform(5.0, 30.0, n)],
        "ra": [float(x) for x in rng.uniform(50.0, 500.0, n)],
        "cm": [float(x) for x in rng.uniform(0.7, 2.0, n)],
        "v": [float(x) for x in rng.uniform(-75.0, -55.0, n)],
    }
    return {"struct": st, "ins": ins, "syn": syn, "stim": stim, "T": Tn, "params": p,
            "dt": float(rng.choice([0.025, 0.025, 0.05, 0.01])), "gsyn": [float(x) for x in trees.logu(rng, 1e-4, 5e-3, max(1, len(syn)))],
            "tagseed": int(rng.integers(0, 2**31))}


def build_active(spec, stimulate=True, record="all"):
    """-> (module, list of (state, index) recordings in row order)"""
    import jax.numpy as jnp
    import jaxley as jx
    import jaxley.channels as ch
    import jaxley.synapses as sy
    from jaxley.connect import connect
    from jxmon import build

    m = build.build_structure(spec["struct"])
    p = spec["params"]
    m.set("radius", np.asarray(p["radius"]))
    m.set("length", np.asarray(p["length"]))
    m.set("axial_resistivity", np.asarray(p["ra"]))
    m.set("capacitance", np.asarray(p["cm"]))
    for ins in spec["ins"]:
        m.select(nodes=np.asarray(ins["rows"])).insert(getattr(ch, ins["ch"])())
    m.set("v", np.asarray(p["v"]))
    rng = np.random.default_rng(spec["tagseed"])
    for c in m.channels:
        for s in c.channel_states:
            rows = m.nodes.index[~m.nodes[s].isna()].to_numpy()
            vals = m.nodes[s].to_numpy(dtype=float).copy()
            vals[rows] = rng.uniform(0.05, 0.6, len(rows))
            m.nodes[s] = vals
    for k, (a, b, t) in enumerate(spec["syn"]):
        connect(m.select(nodes=[a]), m.select(nodes=[b]), getattr(sy, SYN[t])())
    for k, (a, b, t) in enumerate(spec["syn"]):
        for col in m.edges.columns:
            if col.endswith(("_gS", "_gC")) and not np.isnan(m.edges.loc[k, col]):
                m.select(edges=[k]).set(col, spec["gsyn"][k % len(spec["gsyn"])])
            if col.endswith(("_s", "_c")) and not np.isnan(m.edges.loc[k, col]):
                m.select(edges=[k]).set(col, float(rng.uniform(0.05, 0.6)))
    if stimulate:
        for s in spec["stim"]:
            m.select(nodes=np.asarray(s["rows"])).stimulate(jnp.asarray(np.asarray(s["w"])), verbose=False)
    recs = []
    if record:
        m.record("v", verbose=False)
        recs += [("v", int(i)) for i in m.nodes.index]
        if record == "all":
            for c in m.channels:
                for s in c.channel_states:
                    rows = m.nodes.index[~m.nodes[s].isna()].to_numpy()
                    m.select(nodes=rows).record(s, verbose=False)
                    recs += [(s, int(i)) for i in rows]
            for name in dict.fromkeys(c.current_name for c in m.channels):
                m.record(name, verbose=False)
                recs += [(name, int(i)) for i in m.nodes.index]
            if len(m.edges):
                for t, name in enumerate(SYN):
                    es = m.edges.index[m.edges["type"] == name].to_numpy()
                    if len(es) == 0:
                        continue
                    for s in getattr(sy, name)().synapse_states:
                        m.select(edges=es).record(s, verbose=False)
                        recs += [(s, int(e)) for e in es]
                    m.select(edges=es).record(f"i_{name}", verbose=False)
                    recs += [(f"i_{name}", int(e)) for e in es]
    return m, recs


def backends_for(spec):
    """Backends expected to accept the model (stone/thomas refuse networks whose same-level branches differ in size)."""
    st = spec["struct"]
    if st["kind"] != "network":
        return ["jaxley.stone", "jaxley.thomas", "jax.sparse"]
    first = st["cells"][0]
    if all(c == first for c in st["cells"]):
        return ["jaxley.stone", "jax.sparse", "jaxley.thomas"]
    return ["jax.sparse"]


def stim_matrix(spec):
    """(T, n) injected current per step from the stimulus list"""
    n = trees.total_comps(spec["struct"])
    inj = np.zeros((spec["T"], n))
    for s in spec["stim"]:
        w = np.asarray(s["w"])
        for j, r in enumerate(s["rows"]):
            inj[:, r] += w[j]
    return inj
