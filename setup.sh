#!/bin/bash
# MANIFEST.setup_cmd: offline. Installs icontract+deal beside the repo's interpreter (./.deps,
# git-ignored) and runs the oracle self-tests.
set -e
cd "$(dirname "$0")"
export PIP_NO_INDEX=1
if [ ! -d .deps/icontract ]; then
  /venv/bin/python -m pip install -q --no-index --find-links /opt/veriftools/wheels --target .deps icontract deal
fi
export PYTHONPATH="$PWD${PYTHONPATH:+:$PYTHONPATH}"
/venv/bin/python -m jxmon.selftest
